//! xv_miri: small workloads over the unsafe / transmute-heavy code paths, run under Miri
//! (`cargo +nightly miri run`): undefined behaviour, out-of-bounds and invalid-value reports abort
//! the interpreter, which the driver sees as a dead worker (violation "crash-<engine>").
//! The functional oracles are the same as in xv_pure, on smaller inputs.
use std::io::Cursor;

use cas_object::byte_grouping::bg4::*;
use cas_object::{CasObject, CompressionScheme};
use deduplication::Chunker;
use merkledb::aggregate_hashes::{cas_node_hash, file_node_hash};
use merklehash::{compute_data_hash, MerkleHash};
use xvcommon::refs::{self, H};
use xvcommon::rng::{gen_data, DataClass};
use xvcommon::{case_iter, json, witness_base, Args, Report, Rng};

fn hb(m: &MerkleHash) -> H {
    let mut h = [0u8; 32];
    h.copy_from_slice(m.as_bytes());
    h
}

fn bg4(args: &Args, rep: &mut Report) {
    const P: &str = "C07";
    let span = args.usize("span", 40);
    let w = args.usize("worker", 0);
    let (mut lo, mut hi) = (args.usize("len-lo", w * span), args.usize("len-hi", w * span + span - 1));
    if let Some(k) = args.only() {
        lo = k as usize;
        hi = k as usize;
    }
    let mut rng = Rng::new(args.u64("seed", 1));
    for len in lo..=hi {
        xvcommon::report::progress(len as u64);
        let d = gen_data(&mut rng, DataClass::F32, len);
        let want = refs::bg4_split_ref(&d);
        let mut bad = Vec::new();
        if bg4_split_together(&d) != want {
            bad.push("split_together");
        }
        if bg4_split_separate(&d).concat() != want {
            bad.push("split_separate");
        }
        if bg4_split(&d) != want {
            bad.push("split");
        }
        if bg4_regroup_separate(&bg4_split_separate(&d)) != d {
            bad.push("regroup_separate");
        }
        if bg4_regroup_together(&want) != d {
            bad.push("regroup_together");
        }
        if bg4_regroup_together_combined_write_4(&want) != d {
            bad.push("regroup_cw4");
        }
        if bg4_regroup_together_combined_write_8(&want) != d {
            bad.push("regroup_cw8");
        }
        if bg4_regroup(&want) != d {
            bad.push("regroup");
        }
        if !bad.is_empty() {
            rep.violation(P, &format!("bg4-{}", bad[0]), "bg4 split/regroup mismatch (under Miri)", json!({"len": len, "variants": bad}));
        }
        rep.case(P, Some(format!("miri-bg4|r{}|l{}", len % 4, (len / 8).min(9))));
        rep.count(P, "miri_bg4_lengths", 1);
    }
}

fn small_xorb(rng: &mut Rng, n: usize, maxlen: usize) -> (Vec<Vec<u8>>, Vec<u8>, Vec<(MerkleHash, u32)>, MerkleHash) {
    let mut chunks = Vec::new();
    let mut data = Vec::new();
    let mut cb = Vec::new();
    let mut hl = Vec::new();
    for _ in 0..n {
        let l = rng.urange(1, maxlen);
        let class = *rng.pick(&[DataClass::Random, DataClass::Zeros, DataClass::F32, DataClass::Text]);
        let c = gen_data(rng, class, l);
        let h = compute_data_hash(&c);
        data.extend_from_slice(&c);
        cb.push((h, data.len() as u32));
        hl.push((h, l));
        chunks.push(c);
    }
    let hash = cas_node_hash(&hl);
    (chunks, data, cb, hash)
}

fn xorb(args: &Args, rep: &mut Report) {
    let mutants = args.usize("mutants", 6);
    for (k, mut rng) in case_iter(args, 0x3171, 3) {
        let n = rng.urange(1, 4);
        let (chunks, data, cb, hash) = small_xorb(&mut rng, n, 90);
        let scheme = *rng.pick(&[None, Some(CompressionScheme::None), Some(CompressionScheme::LZ4), Some(CompressionScheme::ByteGrouping4LZ4)]);
        let mut cur = Cursor::new(Vec::new());
        let Ok((cas, _)) = CasObject::serialize(&mut cur, &hash, &data, &cb, scheme) else {
            rep.inconclusive("C07", "serialize failed");
            continue;
        };
        let buf = cur.into_inner();
        let w = |what: &str| {
            let mut w = witness_base(args, "miri-xorb", k);
            w["what"] = json!(what);
            w
        };
        // C07: round trip incl. the async chunk decoder (raw-slice header read)
        let mut rd = Cursor::new(&buf);
        match CasObject::deserialize(&mut rd) {
            Ok(c2) if c2 == cas => {
                match c2.get_all_bytes(&mut rd) {
                    Ok(b) if b == data => {},
                    _ => rep.violation("C07", "xorb-rt-get_all_bytes", "get_all_bytes differs (under Miri)", w("all")),
                }
                for a in 0..n {
                    for e in a + 1..=n {
                        let exp: Vec<u8> = chunks[a..e].concat();
                        match c2.get_bytes_by_chunk_range(&mut rd, a as u32, e as u32) {
                            Ok(b) if b == exp => {},
                            _ => rep.violation("C07", "xorb-rt-get_bytes_by_chunk_range", "range read differs (under Miri)", w("range")),
                        }
                    }
                }
                let ser_end = *cas.info.chunk_boundary_offsets.last().unwrap() as usize;
                let ser = &buf[..ser_end];
                let s1 = cas_object::deserialize_chunks(&mut Cursor::new(ser));
                let mut sl: &[u8] = ser;
                let s2 = futures::executor::block_on(cas_object::deserialize_async::deserialize_chunks_from_async_read(&mut sl));
                match (s1, s2) {
                    (Ok(a), Ok(b)) if a == b && a.0 == data => {},
                    _ => rep.violation("C07", "xorb-rt-chunk-decoders", "sync / async chunk decoders disagree (under Miri)", w("decoders")),
                }
            },
            _ => rep.violation("C07", "xorb-rt-deserialize", "footer does not round trip (under Miri)", w("footer")),
        }
        rep.case("C07", Some(format!("miri-xorb|n{n}|{:?}", scheme)));
        rep.count("C07", "miri_xorbs", 1);

        // C08: validators + parsers on the valid object and a few mutants
        let val = |bytes: &[u8], h: &MerkleHash| -> (bool, bool) {
            let s = matches!(CasObject::validate_cas_object(&mut Cursor::new(bytes), h), Ok(Some(_)));
            let a = futures::executor::block_on(async {
                let mut r = futures::io::Cursor::new(bytes);
                matches!(cas_object::validate_cas_object_from_async_read(&mut r, h).await, Ok(Some(_)))
            });
            let _ = CasObject::deserialize(&mut Cursor::new(bytes));
            let _ = cas_object::CasObjectInfoV1::deserialize_only_boundaries_section(&mut Cursor::new(bytes));
            (s, a)
        };
        let (s, a) = val(&buf, &hash);
        if !s || !a {
            rep.violation("C08", "val-rejects-valid", "a validator rejects a valid xorb (under Miri)", w("valid"));
        }
        for mi in 0..mutants {
            let mut m = buf.clone();
            match rng.below(5) {
                0 => {
                    let p = rng.usize_below(m.len());
                    m[p] ^= 1 << rng.below(8);
                },
                1 => {
                    let l = rng.usize_below(m.len());
                    m.truncate(l);
                },
                2 => {
                    // inflate a count in the footer
                    let l = m.len();
                    if l > 40 {
                        let p = l - 4 - 16 - 12;
                        m[p..p + 4].copy_from_slice(&0x00ff_ffffu32.to_le_bytes());
                    }
                },
                3 => {
                    // chunk header length field
                    if m.len() > 8 {
                        m[1] = 0xff;
                        m[2] = 0xff;
                    }
                },
                _ => {
                    let l = m.len();
                    m[l - 4..].copy_from_slice(&(rng.next_u32() % 200).to_le_bytes());
                },
            }
            let (s, a) = val(&m, &hash);
            // accept-soundness.  The seekable validator relies on the footer: the whole object must satisfy the reference
            // parser (v1 footer form).  The streaming validator relies on no footer (it rebuilds one from the chunks): what
            // it accepts must be a chunk stream that decodes and hashes to the claimed hash, whatever follows it.
            if s {
                if let Err(e) = refs::ref_parse_xorb_v1(&m) {
                    // only padding bytes may differ; the reference is stricter on nothing else for v1 objects
                    let pad_only = m.len() == buf.len() && m.iter().zip(buf.iter()).enumerate().all(|(i, (x, y))| x == y || (i >= buf.len() - 20 && i < buf.len() - 4));
                    if !pad_only {
                        rep.violation("C08", "val-unsound-accept-miri", &format!("mutant accepted by the seekable validator but reference rejects: {e}"), w(&format!("mutant {mi}")));
                    }
                }
            }
            if a {
                let data_end = *cas.info.chunk_boundary_offsets.last().unwrap() as usize;
                let chunk_part_untouched = m.len() >= data_end && m[..data_end] == buf[..data_end];
                if !chunk_part_untouched {
                    let upto = data_end.min(m.len());
                    let sound = matches!(refs::ref_parse_chunk_stream(&m[..upto]), Ok(r) if r.computed_hash == *hash.as_bytes())
                        || matches!(refs::ref_parse_chunk_stream(&m), Ok(r) if r.computed_hash == *hash.as_bytes());
                    if !sound {
                        rep.violation("C08", "val-unsound-accept-miri", "mutant with damaged chunk data accepted by the streaming validator: its chunks do not decode to the claimed hash", w(&format!("mutant {mi}")));
                    }
                }
            }
            rep.case("C08", Some(format!("miri-mut|{}", mi % 5)));
            rep.count("C08", "miri_mutants", 1);
        }
    }
}

fn hashes(args: &Args, rep: &mut Report) {
    const P: &str = "C06";
    for (k, mut rng) in case_iter(args, 0x3176, 10) {
        let n = rng.urange(1, 30);
        let list: Vec<(H, u64)> = (0..n)
            .map(|_| {
                let mut h = [0u8; 32];
                rng.fill(&mut h);
                if rng.chance(1, 3) {
                    h[24] &= 0xfc;
                }
                (h, rng.range(1, 70000))
            })
            .collect();
        let real: Vec<(MerkleHash, usize)> = list.iter().map(|(h, l)| (MerkleHash::from(h), *l as usize)).collect();
        let mut salt = [0u8; 32];
        rng.fill(&mut salt);
        let w = |what: &str| {
            let mut w = witness_base(args, "miri-hash", k);
            w["what"] = json!(what);
            w
        };
        if hb(&cas_node_hash(&real)) != refs::xorb_hash(&list) {
            rep.violation(P, "hash-xorb-vs-ref", "cas_node_hash differs from reference (under Miri)", w("xorb"));
        }
        if hb(&file_node_hash(&real, &salt).unwrap()) != refs::file_hash(&list, &salt) {
            rep.violation(P, "hash-file-vs-ref", "file_node_hash differs from reference (under Miri)", w("file"));
        }
        // conversions built on transmute / copy_nonoverlapping
        for (h, _) in list.iter().take(3) {
            let m = MerkleHash::from(h);
            let m2 = MerkleHash::from(*h);
            let back: [u8; 32] = m.into();
            let v: Vec<u8> = m.into();
            let s = MerkleHash::from_slice(h).unwrap();
            let t = MerkleHash::try_from(&h[..]).unwrap();
            if m != m2 || back != *h || v != h.to_vec() || s != m || t != m || m.as_bytes() != h {
                rep.violation(P, "hash-from-slice", "byte conversions disagree (under Miri)", w("conv"));
            }
            if MerkleHash::from_hex(&m.hex()).ok() != Some(m) || MerkleHash::from_base64(&m.base64()).ok() != Some(m) {
                rep.violation(P, "hash-hex-roundtrip", "text forms do not round trip (under Miri)", w("text"));
            }
            let mut key = [0u8; 32];
            rng.fill(&mut key);
            if hb(&m.hmac(MerkleHash::from(&key))) != refs::hmac(h, &key) {
                rep.violation(P, "hash-hmac", "hmac differs (under Miri)", w("hmac"));
            }
            if MerkleHash::from_slice(&h[..31]).is_ok() {
                rep.violation(P, "hash-from-slice", "from_slice accepts 31 bytes", w("short"));
            }
        }
        let b = rng.bytes(rng.clone().urange(0, 300));
        if hb(&compute_data_hash(&b)) != refs::leaf_hash(&b) {
            rep.violation(P, "hash-leaf-vs-ref", "leaf hash differs (under Miri)", w("leaf"));
        }
        rep.case(P, Some(format!("miri-hash|n{}", usize::BITS - n.leading_zeros())));
        rep.count(P, "miri_lists", 1);
    }
}

fn chunker(args: &Args, rep: &mut Report) {
    const P: &str = "C04";
    for (k, mut rng) in case_iter(args, 0x3174, 6) {
        let target = *rng.pick(&[128usize, 256, 1024]);
        let len = rng.urange(0, 6 * target);
        let class = *rng.pick(&[DataClass::Random, DataClass::Zeros, DataClass::LowEntropy, DataClass::Periodic]);
        let data = gen_data(&mut rng, class, len);
        let refb = refs::ref_chunk_boundaries(&data, target, &gearhash::DEFAULT_TABLE);
        let mut ch = Chunker::new(target);
        let mut ends = Vec::new();
        let mut pos = 0usize;
        let mut fed = 0usize;
        while fed < data.len() {
            let l = rng.urange(0, 300).min(data.len() - fed);
            for c in ch.next_block(&data[fed..fed + l], false) {
                pos += c.data.len();
                ends.push(pos);
            }
            fed += l;
        }
        if let Some(c) = ch.finish() {
            pos += c.data.len();
            ends.push(pos);
        }
        if ends != refb {
            let mut w = witness_base(args, "miri-chunker", k);
            w["target"] = json!(target);
            rep.violation(P, "chunker-boundaries-vs-reference", "chunk boundaries differ from reference (under Miri)", w);
        }
        rep.case(P, if ends.len() >= 2 { Some(format!("miri-chunker|t{target}|{class:?}")) } else { None });
        rep.count(P, "miri_streams", 1);
    }
}

fn main() {
    let args = Args::parse();
    let mut rep = Report::new();
    match args.pos(0).unwrap_or("") {
        "bg4" => bg4(&args, &mut rep),
        "xorb" => xorb(&args, &mut rep),
        "hashes" => hashes(&args, &mut rep),
        "chunker" => chunker(&args, &mut rep),
        "noop" => {},
        o => {
            eprintln!("unknown engine {o}");
            std::process::exit(2);
        },
    }
    rep.finish();
}
