//! C06: content hashes are stable pure functions and all code paths agree.
use std::io::{Cursor, Write};

use cas_object::{CasObject, CompressionScheme};
use merkledb::aggregate_hashes::{cas_node_hash, file_node_hash};
use merklehash::{compute_data_hash, HashedWrite, MerkleHash};
use xvcommon::refs::{self, H};
use xvcommon::rng::{gen_data, DataClass};
use xvcommon::{case_iter, hexb, json, witness_base, Args, Report, Rng};

const P: &str = "C06";

pub fn mh(h: &H) -> MerkleHash {
    MerkleHash::from(h)
}
pub fn hb(m: &MerkleHash) -> H {
    let mut h = [0u8; 32];
    h.copy_from_slice(m.as_bytes());
    h
}

/// golden values computed by the reference model (independent of the repository code) for fixed
/// inputs; they pin the functions across time.
fn golden_inputs() -> Vec<(Vec<(H, u64)>, [u8; 32])> {
    let mut rng = Rng::new(0x60_1d_e4);
    let mut out = Vec::new();
    for n in [1usize, 2, 3, 4, 9, 10, 27, 100, 1000] {
        let list: Vec<(H, u64)> = (0..n)
            .map(|_| {
                let mut h = [0u8; 32];
                rng.fill(&mut h);
                (h, rng.range(1, 131072))
            })
            .collect();
        let mut salt = [0u8; 32];
        if n % 2 == 0 {
            rng.fill(&mut salt);
        }
        out.push((list, salt));
    }
    out
}

include!("golden_c06.rs");

fn gen_list(rng: &mut Rng, n: usize) -> (Vec<(H, u64)>, &'static str) {
    let class = rng.below(6);
    let mut list: Vec<(H, u64)> = Vec::with_capacity(n);
    let name;
    match class {
        0 | 1 => {
            name = "random";
            for _ in 0..n {
                let mut h = [0u8; 32];
                rng.fill(&mut h);
                list.push((h, rng.log_range(1, 131072)));
            }
        },
        2 => {
            name = "cut_everywhere";
            for _ in 0..n {
                let mut h = [0u8; 32];
                rng.fill(&mut h);
                h[24] &= 0xfc; // last u64 word (little endian) % 4 == 0
                list.push((h, rng.log_range(1, 131072)));
            }
        },
        3 => {
            name = "cut_nowhere";
            for _ in 0..n {
                let mut h = [0u8; 32];
                rng.fill(&mut h);
                h[24] |= 0x01;
                list.push((h, rng.log_range(1, 131072)));
            }
        },
        4 => {
            name = "repeated";
            let pool_n = rng.urange(1, 6.min(n));
            let pool: Vec<(H, u64)> = (0..pool_n)
                .map(|_| {
                    let mut h = [0u8; 32];
                    rng.fill(&mut h);
                    (h, rng.log_range(1, 131072))
                })
                .collect();
            for _ in 0..n {
                if rng.chance(2, 3) {
                    list.push(*rng.pick(&pool));
                } else {
                    let mut h = [0u8; 32];
                    rng.fill(&mut h);
                    list.push((h, rng.log_range(1, 131072)));
                }
            }
        },
        _ => {
            name = "extreme_len";
            for _ in 0..n {
                let mut h = [0u8; 32];
                rng.fill(&mut h);
                let l = *rng.pick(&[0u64, 1, 2, 0xffff_ffff, 0x7fff_ffff, 65536]);
                list.push((h, l));
            }
        },
    }
    (list, name)
}

fn to_real(list: &[(H, u64)]) -> Vec<(MerkleHash, usize)> {
    list.iter().map(|(h, l)| (mh(h), *l as usize)).collect()
}

pub fn run(args: &Args, rep: &mut Report) {
    let max_n = args.usize("max-list", 20000);

    // golden values first (once per worker 0)
    if args.u64("worker", 0) == 0 && args.only().is_none() {
        let g = golden_inputs();
        for (i, (list, salt)) in g.iter().enumerate() {
            let x = hb(&cas_node_hash(&to_real(list)));
            let f = hb(&file_node_hash(&to_real(list), salt).unwrap());
            let r = hb(&mdb_shard::chunk_verification::range_hash_from_chunks(&list.iter().map(|(h, _)| mh(h)).collect::<Vec<_>>()));
            if x != refs::xorb_hash(list) || f != refs::file_hash(list, salt) {
                rep.violation(P, "hash-golden-vs-ref", "aggregate hash of golden input differs from reference", json!({"golden_index": i}));
            }
            let exp = GOLDEN.get(i).copied();
            let got = [hexb(&x), hexb(&f), hexb(&r)];
            match exp {
                Some(e) => {
                    if e[0] != got[0] || e[1] != got[1] || e[2] != got[2] {
                        rep.violation(P, "hash-golden", "aggregate hash differs from committed golden value", json!({"golden_index": i, "got": got, "expected": e}));
                    }
                    rep.count(P, "golden_checked", 1);
                },
                None => {
                    // bootstrap: print the values so they can be committed (never on a normal run)
                    eprintln!("GOLDEN [\"{}\",\"{}\",\"{}\"],", got[0], got[1], got[2]);
                },
            }
        }
        let d = compute_data_hash(b"xet-core golden leaf");
        if hexb(&hb(&d)) != GOLDEN_LEAF {
            if GOLDEN_LEAF.is_empty() {
                eprintln!("GOLDEN_LEAF {}", hexb(&hb(&d)));
            } else {
                rep.violation(P, "hash-golden-leaf", "chunk hash differs from golden", json!({"got": hexb(&hb(&d))}));
            }
        }
    }

    for (k, mut rng) in case_iter(args, 0xC06, 500) {
        let n = match rng.below(8) {
            0 => rng.urange(1, 12),
            1 => rng.urange(1, 3),
            _ => rng.log_range(1, max_n as u64) as usize,
        };
        let (list, class) = gen_list(&mut rng, n);
        let real_list = to_real(&list);
        let mut salt = [0u8; 32];
        let salt_class = rng.below(3);
        if salt_class != 0 {
            rng.fill(&mut salt);
        }
        let w = |extra: &str| {
            let mut w = witness_base(args, "hash", k);
            w["n"] = json!(n);
            w["class"] = json!(class);
            w["what"] = json!(extra);
            w
        };
        // extreme lengths with duplicates are excluded by construction (fresh hashes)
        let res = xvcommon::catch(|| {
            let x = hb(&cas_node_hash(&real_list));
            let f = hb(&file_node_hash(&real_list, &salt).unwrap());
            (x, f)
        });
        let (x, f) = match res {
            Ok(v) => v,
            Err(p) => {
                rep.violation(P, "hash-panic", &format!("aggregate hash panicked: {p}"), w("panic"));
                continue;
            },
        };
        let rx = refs::xorb_hash(&list);
        let rf = refs::file_hash(&list, &salt);
        if x != rx {
            rep.violation(P, "hash-xorb-vs-ref", "cas_node_hash differs from reference construction", w("xorb"));
        }
        if f != rf {
            rep.violation(P, "hash-file-vs-ref", "file_node_hash differs from reference construction", w("file"));
        }
        // range hash over a random sub-range
        let a = rng.usize_below(n);
        let b = rng.urange(a + 1, n);
        let hs: Vec<MerkleHash> = real_list[a..b].iter().map(|x| x.0).collect();
        let rr = refs::range_hash(&list[a..b].iter().map(|x| x.0).collect::<Vec<_>>());
        if hb(&mdb_shard::chunk_verification::range_hash_from_chunks(&hs)) != rr {
            rep.violation(P, "hash-range-vs-ref", "range hash differs from reference", w("range"));
        }
        // salts: a different salt must give a different file hash
        let mut salt2 = salt;
        salt2[rng.usize_below(32)] ^= 1 << rng.below(8);
        let f2 = hb(&file_node_hash(&real_list, &salt2).unwrap());
        if f2 == f {
            rep.violation(P, "hash-salt-ignored", "file hash equal under different salts", w("salt"));
        }

        // mutations change the aggregate (applied to entries whose hash is unique in the list)
        let mut counts = std::collections::HashMap::new();
        for (h, _) in &list {
            *counts.entry(*h).or_insert(0usize) += 1;
        }
        let uniq: Vec<usize> = (0..n).filter(|i| counts[&list[*i].0] == 1).collect();
        if !uniq.is_empty() {
            let i = *rng.pick(&uniq);
            let mut muts: Vec<(&str, Vec<(H, u64)>)> = Vec::new();
            {
                let mut m = list.clone();
                m[i].0[rng.usize_below(32)] ^= 1 << rng.below(8);
                muts.push(("change", m));
            }
            // (A length-only change with an unchanged chunk hash is not a possible chunk change --
            // the hash determines the bytes -- so it is not demanded to alter the aggregate; the
            // presence of lengths in interior nodes is pinned by the reference comparison instead.)
            if n >= 2 {
                let mut m = list.clone();
                m.remove(i);
                muts.push(("drop", m));
                let j = if i + 1 < n { i + 1 } else { i - 1 };
                if list[i] != list[j] {
                    let mut m = list.clone();
                    m.swap(i, j);
                    muts.push(("swap", m));
                }
            }
            {
                let mut m = list.clone();
                let mut h = [0u8; 32];
                rng.fill(&mut h);
                m.insert(rng.usize_below(n + 1), (h, rng.range(1, 1000)));
                muts.push(("insert", m));
            }
            for (name, m) in muts {
                let mx = hb(&cas_node_hash(&to_real(&m)));
                let mf = hb(&file_node_hash(&to_real(&m), &salt).unwrap());
                if mx == x || mf == f {
                    let mut ww = w(name);
                    ww["mutation_index"] = json!(i);
                    rep.violation(P, &format!("hash-mutation-{name}"), "mutated chunk list has the same aggregate hash", ww);
                }
                if mx != refs::xorb_hash(&m) {
                    rep.violation(P, "hash-xorb-vs-ref", "cas_node_hash differs from reference (mutated list)", w(name));
                }
                rep.count(P, "mutations_checked", 1);
            }
        }

        // text forms round trip
        for (h, _) in list.iter().take(4) {
            let m = mh(h);
            let hexs = m.hex();
            if hexs != refs::hex_words(h) {
                rep.violation(P, "hash-hex-form", "hex text form differs from reference", w("hex"));
            }
            match MerkleHash::from_hex(&hexs) {
                Ok(m2) if m2 == m => {},
                _ => rep.violation(P, "hash-hex-roundtrip", "from_hex(hex(h)) != h", w("hex")),
            }
            match MerkleHash::from_base64(&m.base64()) {
                Ok(m2) if m2 == m => {},
                _ => rep.violation(P, "hash-b64-roundtrip", "from_base64(base64(h)) != h", w("b64")),
            }
            // the other direction: a 64-byte text that is accepted must be the text form of the hash it parses to
            // (one text per hash, up to letter case); near-miss texts: one position replaced by a sign, blank,
            // non-hex letter, upper-case digit or a 2-byte character (length kept at 64 bytes)
            {
                let mut t: Vec<char> = hexs.chars().collect();
                let anyp = rng.usize_below(64);
                let pos = *rng.pick(&[0usize, 15, 16, 31, 32, 47, 48, 63, anyp]);
                match rng.below(7) {
                    0 => t[pos] = '+',
                    1 => t[pos] = '-',
                    2 => t[pos] = ' ',
                    3 => t[pos] = 'g',
                    4 => t[pos] = t[pos].to_ascii_uppercase(),
                    5 => {
                        // 2-byte character replacing two hex digits, straddling or not a 16-digit word boundary
                        let p2 = pos.min(62);
                        t[p2] = 'é';
                        t.remove(p2 + 1);
                    },
                    _ => {
                        t.truncate(rng.usize_below(64));
                    },
                }
                let text: String = t.into_iter().collect();
                match xvcommon::catch(|| MerkleHash::from_hex(&text)) {
                    Err(p) => rep.violation(P, "hash-hex-parse-panic", &format!("from_hex panics on a malformed text: {}", p.lines().next().unwrap_or("")), w(&text)),
                    Ok(Ok(m2)) => {
                        if m2.hex() != text.to_ascii_lowercase() {
                            rep.violation(P, "hash-hex-text-not-unique", "from_hex accepts a text that is not the hex form of the hash it returns", w(&format!("{text:?} -> {}", m2.hex())));
                        }
                        rep.count(P, "near_miss_hex_texts_accepted", 1);
                    },
                    Ok(Err(_)) => rep.count(P, "near_miss_hex_texts_rejected", 1),
                }
            }
            let mut key = [0u8; 32];
            rng.fill(&mut key);
            if hb(&m.hmac(mh(&key))) != refs::hmac(h, &key) {
                rep.violation(P, "hash-hmac", "hmac differs from keyed blake3", w("hmac"));
            }
            match MerkleHash::from_slice(h) {
                Ok(m2) if m2 == m => {},
                _ => rep.violation(P, "hash-from-slice", "from_slice differs", w("slice")),
            }
            let back: [u8; 32] = m.into();
            if back != *h {
                rep.violation(P, "hash-into-bytes", "into [u8;32] differs", w("bytes"));
            }
        }

        // streaming hasher == one-shot, on a byte string split at random write sizes
        let blen = match rng.below(4) {
            0 => rng.urange(0, 64),
            1 => rng.urange(0, 4096),
            _ => rng.log_range(1, 300_000) as usize,
        };
        let bytes = rng.bytes(blen);
        let one = hb(&compute_data_hash(&bytes));
        if one != refs::leaf_hash(&bytes) {
            rep.violation(P, "hash-leaf-vs-ref", "compute_data_hash differs from keyed blake3", w("leaf"));
        }
        let mut hw = HashedWrite::new(Vec::new());
        let mut pos = 0;
        while pos < bytes.len() {
            let l = rng.urange(0, 5000.min(bytes.len() - pos));
            hw.write_all(&bytes[pos..pos + l]).unwrap();
            pos += l;
        }
        hw.flush().unwrap();
        if hb(&hw.hash()) != one || hw.into_inner() != bytes {
            rep.violation(P, "hash-streaming", "HashedWrite differs from one-shot hash", w("stream"));
        }
        // the same through an inner writer that accepts only part of each buffer (as files, pipes and
        // sockets may): write_all retries the rest, and the hash must still be that of the bytes written
        {
            struct Short(Vec<u8>, usize);
            impl Write for Short {
                fn write(&mut self, b: &[u8]) -> std::io::Result<usize> {
                    let n = b.len().min(self.1);
                    self.0.extend_from_slice(&b[..n]);
                    Ok(n)
                }
                fn flush(&mut self) -> std::io::Result<()> {
                    Ok(())
                }
            }
            let mut hw = HashedWrite::new(Short(Vec::new(), rng.urange(1, 700)));
            let mut pos = 0;
            while pos < bytes.len() {
                let l = rng.urange(1, 3000.min(bytes.len() - pos));
                hw.write_all(&bytes[pos..pos + l]).unwrap();
                pos += l;
            }
            let h2 = hb(&hw.hash());
            let inner = hw.into_inner();
            if inner.0 != bytes {
                rep.inconclusive(P, "short writer harness lost bytes");
            } else if h2 != one {
                rep.violation(P, "hash-streaming-short-writes", "HashedWrite over a partially-writing inner writer hashes bytes that were not written (differs from the one-shot hash of the written bytes)", w("short writes"));
            }
            rep.count(P, "short_write_streams", 1);
        }

        // uploader hash == what both validators recompute from a serialization (small lists only:
        // needs real chunk data)
        let mut validated = false;
        if n <= 64 && rng.chance(1, 2) {
            let mut data = Vec::new();
            let mut cb: Vec<(MerkleHash, u32)> = Vec::new();
            let mut hl: Vec<(MerkleHash, usize)> = Vec::new();
            // compressible and incompressible chunks, so that stored and unpacked lengths differ
            let dclass = *rng.pick(&[DataClass::Random, DataClass::Text, DataClass::Zeros, DataClass::F32, DataClass::LowEntropy, DataClass::DoubledRecords]);
            let mixed = rng.chance(1, 2);
            for _ in 0..n {
                let l = rng.urange(1, 600);
                let c = if mixed && rng.chance(1, 2) { rng.bytes(l) } else { gen_data(&mut rng, dclass, l) };
                let h = compute_data_hash(&c);
                data.extend_from_slice(&c);
                cb.push((h, data.len() as u32));
                hl.push((h, l));
            }
            let xh = cas_node_hash(&hl);
            let scheme = *rng.pick(&[Some(CompressionScheme::None), Some(CompressionScheme::LZ4), Some(CompressionScheme::ByteGrouping4LZ4), None]);
            let mut cur = Cursor::new(Vec::new());
            if CasObject::serialize(&mut cur, &xh, &data, &cb, scheme).is_ok() {
                let buf = cur.into_inner();
                if buf.len() < data.len() {
                    rep.count(P, "validator_agreements_on_compressed_xorbs", 1);
                }
                let ok_sync = matches!(CasObject::validate_cas_object(&mut Cursor::new(&buf), &xh), Ok(Some(_)));
                let rt = tokio::runtime::Builder::new_current_thread().build().unwrap();
                let ok_async = rt.block_on(async {
                    let mut r = futures::io::Cursor::new(&buf);
                    matches!(cas_object::validate_cas_object_from_async_read(&mut r, &xh).await, Ok(Some(_)))
                });
                if !ok_sync || !ok_async {
                    rep.violation(P, "hash-uploader-vs-validator", "validators do not recompute the uploader's xorb hash", w(&format!("sync={ok_sync} async={ok_async}")));
                }
                // the same chunk data behind the legacy (version 0) footer, which both validators still accept
                if let Ok(r) = refs::ref_parse_xorb_v1(&buf) {
                    let chunk_end = *r.boundaries.last().unwrap() as usize;
                    let mut v0 = buf[..chunk_end].to_vec();
                    v0.extend_from_slice(&crate::e_xorb::v0_footer(&hb(&xh), &r.boundaries, &r.chunk_hashes));
                    let v0_sync = xvcommon::catch(|| matches!(CasObject::validate_cas_object(&mut Cursor::new(&v0), &xh), Ok(Some(_))));
                    let v0_async = xvcommon::catch(|| {
                        rt.block_on(async {
                            let mut r = futures::io::Cursor::new(&v0);
                            matches!(cas_object::validate_cas_object_from_async_read(&mut r, &xh).await, Ok(Some(_)))
                        })
                    });
                    if v0_sync != Ok(true) || v0_async != Ok(true) {
                        rep.violation(P, "hash-uploader-vs-validator-v0", "validators do not recompute the uploader's xorb hash for a xorb with a legacy footer", w(&format!("sync={v0_sync:?} async={v0_async:?}")));
                    }
                    rep.count(P, "validator_agreements_legacy_footer", 1);
                }
                // ... and what they recompute is that hash and no other: a different claimed hash, or a footer
                // recording a different hash, must not be accepted
                let mut other = xh;
                other[rng.usize_below(4)] ^= 1 << rng.below(64);
                let mut forged = buf.clone();
                {
                    // footer starts info_length + 4 bytes from the end; the recorded hash follows ident(7)+version(1)
                    let l = forged.len();
                    let il = u32::from_le_bytes([forged[l - 4], forged[l - 3], forged[l - 2], forged[l - 1]]) as usize;
                    let hp = l - 4 - il + 8;
                    forged[hp + rng.usize_below(32)] ^= 1 << rng.below(8);
                }
                for (bytes, claimed, what) in [(&buf, &other, "other claimed hash"), (&forged, &xh, "footer records another hash")] {
                    let acc_sync = matches!(CasObject::validate_cas_object(&mut Cursor::new(bytes), claimed), Ok(Some(_)));
                    let acc_async = rt.block_on(async {
                        let mut r = futures::io::Cursor::new(bytes);
                        matches!(cas_object::validate_cas_object_from_async_read(&mut r, claimed).await, Ok(Some(_)))
                    });
                    if acc_sync || acc_async {
                        rep.violation(P, "hash-validator-accepts-other-hash", "a validator accepts a xorb under a hash that is not the one recomputed from its chunks", w(&format!("{what}: sync={acc_sync} async={acc_async}")));
                    }
                }
                validated = true;
                rep.count(P, "validator_agreements", 1);
            }
        }

        let sig = format!("{class}|n{}|s{salt_class}|v{}", (usize::BITS - n.leading_zeros()), validated as u8);
        rep.case(P, if n >= 2 { Some(sig) } else { None });
        if rep.wants_sample(P) {
            let mut s = w("sample");
            s["xorb_hash"] = json!(hexb(&x));
            s["file_hash"] = json!(hexb(&f));
            rep.sample(P, s);
        }
    }
}
