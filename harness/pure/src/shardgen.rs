//! Generators of shard contents (the "model": plain maps of records) with hostile key spaces.
use std::collections::BTreeMap;

use mdb_shard::cas_structs::{CASChunkSequenceEntry, CASChunkSequenceHeader, MDBCASInfo};
use mdb_shard::file_structs::{
    FileDataSequenceEntry, FileDataSequenceHeader, FileMetadataExt, FileVerificationEntry, MDBFileInfo,
};
use mdb_shard::shard_in_memory::MDBInMemoryShard;
use merklehash::MerkleHash;
use xvcommon::Rng;

#[derive(Clone, Default)]
pub struct Model {
    pub files: BTreeMap<MerkleHash, MDBFileInfo>,
    pub cas: BTreeMap<MerkleHash, MDBCASInfo>,
}

#[derive(Clone, Copy, Debug, PartialEq, Eq)]
pub enum KeySpace {
    Uniform,
    Clustered,
    Extremes,
    Collisions,
}

pub struct KeyGen {
    pub space: KeySpace,
    base: u64,
    groups: Vec<(u64, usize)>, // (word0, remaining members)
    pub max_group: usize,
}

impl KeyGen {
    pub fn new(rng: &mut Rng, space: KeySpace, max_group: usize) -> Self {
        KeyGen {
            space,
            base: rng.next_u64() & !0xfffff,
            groups: Vec::new(),
            max_group,
        }
    }
    pub fn word0(&mut self, rng: &mut Rng) -> u64 {
        match self.space {
            KeySpace::Uniform => rng.next_u64(),
            KeySpace::Clustered => self.base.wrapping_add(rng.below(1 << 20)),
            KeySpace::Extremes => {
                if rng.chance(1, 2) {
                    *rng.pick(&[0u64, 1, 2, 1 << 63, (1 << 63) - 1, u64::MAX, u64::MAX - 1, u64::MAX - 2])
                } else {
                    rng.next_u64()
                }
            },
            KeySpace::Collisions => {
                // continue an open group with probability 1/2
                if !self.groups.is_empty() && rng.chance(1, 2) {
                    let i = rng.usize_below(self.groups.len());
                    let w = self.groups[i].0;
                    self.groups[i].1 -= 1;
                    if self.groups[i].1 == 0 {
                        self.groups.swap_remove(i);
                    }
                    w
                } else {
                    let w = if rng.chance(1, 6) { *rng.pick(&[0u64, u64::MAX, 1 << 63]) } else { rng.next_u64() };
                    let size = rng.urange(2, self.max_group.max(2));
                    if size > 1 {
                        self.groups.push((w, size - 1));
                    }
                    w
                }
            },
        }
    }
    pub fn hash(&mut self, rng: &mut Rng) -> MerkleHash {
        loop {
            let h = MerkleHash::from([self.word0(rng), rng.next_u64(), rng.next_u64(), rng.next_u64()]);
            // all-ones is the bookend marker and all-zero the "no hash" marker; neither is a legal record key
            if h != MerkleHash::from([!0u64; 4]) && h != MerkleHash::default() {
                return h;
            }
        }
    }
}

pub fn rand_hash(rng: &mut Rng) -> MerkleHash {
    MerkleHash::from([rng.next_u64(), rng.next_u64(), rng.next_u64(), rng.next_u64()])
}

/// Make a hash sharing the 64-bit prefix with `h` but different otherwise.
pub fn same_prefix(rng: &mut Rng, h: &MerkleHash) -> MerkleHash {
    MerkleHash::from([h[0], rng.next_u64(), rng.next_u64(), rng.next_u64()])
}

pub struct GenParams {
    pub n_cas: usize,
    pub max_chunks_per_cas: usize,
    pub n_files: usize,
    pub cas_space: KeySpace,
    pub chunk_space: KeySpace,
    pub file_space: KeySpace,
    /// max members of a truncated-prefix collision group for file / cas keys (<= 7) and chunk keys
    pub max_group_keys: usize,
    pub max_group_chunks: usize,
    pub dup_chunks: bool,
    pub flags: Option<(bool, bool)>,
}

pub fn gen_cas(rng: &mut Rng, hash: MerkleHash, n_chunks: usize, ck: &mut KeyGen, pool: &mut Vec<(MerkleHash, u32)>, dup: bool) -> MDBCASInfo {
    let mut chunks = Vec::with_capacity(n_chunks);
    let mut pos = 0u32;
    // a xorb's unpacked size must fit the format's u32 fields (real xorbs are <= 64 MiB)
    let max_len = (((1u64 << 31) / n_chunks.max(1) as u64).min(131072)).max(1);
    for _ in 0..n_chunks {
        let reuse = if dup && !pool.is_empty() && rng.chance(1, 5) { Some(*rng.pick(pool)) } else { None };
        let (h, len) = if let Some(e) = reuse.filter(|e| (e.1 as u64) <= max_len) {
            e
        } else {
            let e = (ck.hash(rng), rng.range(1, max_len) as u32);
            if pool.len() < 512 {
                pool.push(e);
            }
            e
        };
        chunks.push(CASChunkSequenceEntry::new(h, len, pos));
        pos = pos.wrapping_add(len);
    }
    let mut metadata = CASChunkSequenceHeader::new(hash, n_chunks as u32, pos);
    metadata.num_bytes_on_disk = rng.next_u32() >> 8;
    MDBCASInfo { metadata, chunks }
}

pub fn gen_file(rng: &mut Rng, hash: MerkleHash, cas: &[&MDBCASInfo], flags: (bool, bool)) -> MDBFileInfo {
    let n_seg = match rng.below(10) {
        0 => 0,
        1 => 1,
        _ => rng.urange(1, 12),
    };
    let mut segments = Vec::new();
    let mut verification = Vec::new();
    // one file in twenty is larger than 4 GiB: 70..110 segments of 48..64 MiB (whole-xorb segments of a real large file),
    // so that per-file and per-shard byte totals exceed u32
    let huge = n_seg > 1 && rng.chance(1, 20);
    let n_seg = if huge { rng.urange(70, 110) } else { n_seg };
    for _ in 0..n_seg {
        if huge {
            let sz = rng.range(48 << 20, 64 << 20) as u32;
            segments.push(FileDataSequenceEntry::new(rand_hash(rng), sz, 0u32, rng.range(500, 1024) as u32));
            continue;
        }
        if !cas.is_empty() && rng.chance(4, 5) {
            let c = *rng.pick(cas);
            let n = c.chunks.len();
            if n > 0 {
                let a = rng.usize_below(n);
                let b = rng.urange(a + 1, n);
                let bytes: u32 = c.chunks[a..b].iter().map(|x| x.unpacked_segment_bytes).fold(0u32, |x, y| x.wrapping_add(y));
                segments.push(FileDataSequenceEntry::new(c.metadata.cas_hash, bytes, a as u32, b as u32));
                continue;
            }
        }
        segments.push(FileDataSequenceEntry::new(rand_hash(rng), rng.next_u32() >> 4, 0u32, rng.range(1, 100) as u32));
    }
    if flags.0 {
        for _ in 0..segments.len() {
            verification.push(FileVerificationEntry::new(rand_hash(rng)));
        }
    }
    let metadata_ext = if flags.1 { Some(FileMetadataExt::new(rand_hash(rng))) } else { None };
    MDBFileInfo {
        metadata: FileDataSequenceHeader::new(hash, segments.len(), flags.0, flags.1),
        segments,
        verification,
        metadata_ext,
    }
}

pub fn gen_model(rng: &mut Rng, p: &GenParams) -> Model {
    let mut m = Model::default();
    let mut cas_keys = KeyGen::new(rng, p.cas_space, p.max_group_keys);
    let mut chunk_keys = KeyGen::new(rng, p.chunk_space, p.max_group_chunks);
    let mut file_keys = KeyGen::new(rng, p.file_space, p.max_group_keys);
    let mut pool = Vec::new();
    // count of keys per truncated prefix must stay <= 7 for file / cas keys
    let mut prefix_count: std::collections::HashMap<u64, usize> = Default::default();
    for _ in 0..p.n_cas {
        let mut h = cas_keys.hash(rng);
        let mut tries = 0;
        while m.cas.contains_key(&h) || *prefix_count.get(&h[0]).unwrap_or(&0) >= 7 {
            h = if tries > 3 { rand_hash(rng) } else { cas_keys.hash(rng) };
            tries += 1;
        }
        *prefix_count.entry(h[0]).or_insert(0) += 1;
        let n_chunks = match rng.below(12) {
            0 => 0,
            1 => 1,
            _ => rng.log_range(1, p.max_chunks_per_cas as u64) as usize,
        };
        let c = gen_cas(rng, h, n_chunks, &mut chunk_keys, &mut pool, p.dup_chunks);
        m.cas.insert(h, c);
    }
    let cas_list: Vec<&MDBCASInfo> = m.cas.values().collect();
    let mut prefix_count: std::collections::HashMap<u64, usize> = Default::default();
    let mut files = BTreeMap::new();
    for _ in 0..p.n_files {
        let mut h = file_keys.hash(rng);
        let mut tries = 0;
        while files.contains_key(&h) || *prefix_count.get(&h[0]).unwrap_or(&0) >= 7 {
            h = if tries > 3 { rand_hash(rng) } else { file_keys.hash(rng) };
            tries += 1;
        }
        *prefix_count.entry(h[0]).or_insert(0) += 1;
        let flags = p.flags.unwrap_or((rng.chance(1, 2), rng.chance(1, 2)));
        files.insert(h, gen_file(rng, h, &cas_list, flags));
    }
    m.files = files;
    m
}

pub fn to_mem(m: &Model) -> MDBInMemoryShard {
    let mut s = MDBInMemoryShard::default();
    for c in m.cas.values() {
        s.add_cas_block(c.clone()).unwrap();
    }
    for f in m.files.values() {
        s.add_file_reconstruction_info(f.clone()).unwrap();
    }
    s
}

pub fn rand_params(rng: &mut Rng, scale: usize) -> GenParams {
    let spaces = [KeySpace::Uniform, KeySpace::Clustered, KeySpace::Extremes, KeySpace::Collisions];
    let n_cas = match rng.below(8) {
        0 => 0,
        1 => 1,
        _ => rng.log_range(1, (30 * scale) as u64) as usize,
    };
    let n_files = match rng.below(8) {
        0 => 0,
        1 => 1,
        _ => rng.log_range(1, (60 * scale) as u64) as usize,
    };
    GenParams {
        n_cas,
        max_chunks_per_cas: *rng.pick(&[4usize, 40, 300, 1500]),
        n_files,
        cas_space: *rng.pick(&spaces),
        chunk_space: *rng.pick(&spaces),
        file_space: *rng.pick(&spaces),
        max_group_keys: rng.urange(2, 7),
        max_group_chunks: *rng.pick(&[2usize, 4, 7, 8, 12]),
        dup_chunks: rng.chance(1, 2),
        flags: if rng.chance(1, 3) { Some((rng.chance(1, 2), rng.chance(1, 2))) } else { None },
    }
}
