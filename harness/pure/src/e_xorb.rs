//! C07 (xorb serialization round trip) and C08 (validation soundness / robustness).
use std::io::Cursor;

use bytes::Bytes;
use cas_object::{CasObject, CasObjectInfoV1, CompressionScheme};
use merkledb::aggregate_hashes::cas_node_hash;
use merklehash::{compute_data_hash, MerkleHash};
use xvcommon::refs::{self, ref_decode_chunk, H};
use xvcommon::rng::{gen_data, DataClass};
use xvcommon::{case_iter, hexb, json, witness_base, Args, Report, Rng, Value};

use crate::alloc;
use crate::e_hash::{hb, mh};

pub struct Base {
    pub chunks: Vec<Vec<u8>>,
    pub data: Vec<u8>,
    pub cb: Vec<(MerkleHash, u32)>,
    pub hash: MerkleHash,
    pub scheme: Option<CompressionScheme>,
    pub classes: u32,
}

const CLASSES: [DataClass; 9] = [
    DataClass::DoubledRecords,
    DataClass::SkewedHigh,
    DataClass::Random,
    DataClass::Zeros,
    DataClass::Text,
    DataClass::F32,
    DataClass::F16,
    DataClass::LowEntropy,
    DataClass::Periodic,
];

pub fn scheme_name(s: Option<CompressionScheme>) -> &'static str {
    match s {
        None => "auto",
        Some(CompressionScheme::None) => "none",
        Some(CompressionScheme::LZ4) => "lz4",
        Some(CompressionScheme::ByteGrouping4LZ4) => "bg4lz4",
    }
}

fn gen_len(rng: &mut Rng, max_len: usize) -> usize {
    let l = match rng.below(12) {
        0 => rng.urange(1, 8),
        1 => 4 * rng.urange(1, 300) + rng.urange(0, 3), // every residue mod 4
        2 => 65536 + rng.urange(0, 3) - 1,
        3 => 131072 - rng.urange(0, 3),
        4 => 131072,
        _ => rng.log_range(1, 40000) as usize,
    };
    l.clamp(1, max_len)
}

pub fn gen_base(rng: &mut Rng, max_chunks: usize, max_len: usize) -> Base {
    let mut n = match rng.below(6) {
        0 => 1,
        1 => rng.urange(1, 4),
        _ => rng.log_range(1, max_chunks as u64) as usize,
    };
    // chunk counts around internal caps (average-xorb preallocation 1152, MAX_XORB_CHUNKS 8192)
    let many = max_chunks >= 8192 && rng.chance(1, 12);
    if many {
        n = *rng.pick(&[1151usize, 1152, 1153, 1154, 2000, 4096, 8191, 8192]);
    }
    let max_len = if n > 600 { max_len.min(48) } else { max_len };
    let scheme = *rng.pick(&[
        None,
        Some(CompressionScheme::None),
        Some(CompressionScheme::LZ4),
        Some(CompressionScheme::ByteGrouping4LZ4),
    ]);
    let mixed = rng.chance(1, 2);
    let one_class = *rng.pick(&CLASSES);
    let mut chunks = Vec::with_capacity(n);
    let mut data = Vec::new();
    let mut cb = Vec::with_capacity(n);
    let mut hl = Vec::with_capacity(n);
    let mut classes = 0u32;
    // keep total size moderate
    let budget = 3_000_000usize;
    for _ in 0..n {
        let l = gen_len(rng, max_len).min(budget.saturating_sub(data.len()).max(1));
        let class = if mixed { *rng.pick(&CLASSES) } else { one_class };
        classes |= 1 << (class as u32);
        let c = gen_data(rng, class, l);
        let h = compute_data_hash(&c);
        data.extend_from_slice(&c);
        cb.push((h, data.len() as u32));
        hl.push((h, l));
        chunks.push(c);
    }
    let hash = cas_node_hash(&hl);
    Base {
        chunks,
        data,
        cb,
        hash,
        scheme,
        classes,
    }
}

pub fn serialize_base(b: &Base) -> Result<(CasObject, Vec<u8>, usize), String> {
    let mut cur = Cursor::new(Vec::new());
    let (cas, n) = CasObject::serialize(&mut cur, &b.hash, &b.data, &b.cb, b.scheme).map_err(|e| format!("{e}"))?;
    Ok((cas, cur.into_inner(), n))
}

fn rt() -> tokio::runtime::Runtime {
    tokio::runtime::Builder::new_current_thread().build().unwrap()
}

// ------------------------------------------------------------------------------------------
// C07

pub fn run_roundtrip(args: &Args, rep: &mut Report) {
    const P: &str = "C07";
    let max_chunks = args.usize("max-chunks", 300);
    let rt = rt();

    // bg4 split / regroup for every length in a window (exhaustive over the lengths this worker owns)
    if args.only().is_none() {
        let worker = args.u64("worker", 0) as usize;
        let nworkers = args.u64("workers", 1).max(1) as usize;
        let mut rng = Rng::new(xvcommon::rng::mix(&[args.u64("seed", 1), 0xb64]));
        let maxlen = args.usize("bg4-max-len", 4100);
        let mut n_checked = 0u64;
        for len in (0..=maxlen).filter(|l| l % nworkers == worker) {
            let class = *rng.pick(&CLASSES);
            let d = gen_data(&mut rng, class, len);
            let res = xvcommon::catch(|| {
                use cas_object::byte_grouping::bg4::*;
                let split_t = bg4_split_together(&d);
                let split_s: Vec<u8> = bg4_split_separate(&d).concat();
                let split = bg4_split(&d);
                let expect_split = refs::bg4_split_ref(&d);
                let mut bad = Vec::new();
                if split_t != expect_split {
                    bad.push("split_together");
                }
                if split_s != expect_split {
                    bad.push("split_separate");
                }
                if split != expect_split {
                    bad.push("split");
                }
                let groups = bg4_split_separate(&d);
                if bg4_regroup_separate(&groups) != d {
                    bad.push("regroup_separate");
                }
                if bg4_regroup_together(&expect_split) != d {
                    bad.push("regroup_together");
                }
                if bg4_regroup_together_combined_write_4(&expect_split) != d {
                    bad.push("regroup_cw4");
                }
                if bg4_regroup_together_combined_write_8(&expect_split) != d {
                    bad.push("regroup_cw8");
                }
                if bg4_regroup(&expect_split) != d {
                    bad.push("regroup");
                }
                bad
            });
            match res {
                Ok(bad) if bad.is_empty() => {},
                Ok(bad) => rep.violation(P, &format!("bg4-{}", bad[0]), "bg4 split/regroup mismatch", json!({"len": len, "variants": bad})),
                Err(p) => rep.violation(P, "bg4-panic", &p, json!({"len": len})),
            }
            n_checked += 1;
        }
        rep.count(P, "bg4_lengths_checked", n_checked);
    }

    for (k, mut rng) in case_iter(args, 0xC07, 100) {
        let b = gen_base(&mut rng, max_chunks, 131072);
        let n = b.chunks.len();
        let w = |what: &str| -> Value {
            let mut w = witness_base(args, "xorb_rt", k);
            w["n_chunks"] = json!(n);
            w["scheme"] = json!(scheme_name(b.scheme));
            w["bytes"] = json!(b.data.len());
            w["what"] = json!(what);
            w
        };
        // auto mode: (chunks for which grouping was predicted, of those stored raw, stored grouped, stored lz4)
        let auto_stats = std::cell::Cell::new((0u64, 0u64, 0u64, 0u64));
        let v0_done = std::cell::Cell::new(0u64);
        let res = xvcommon::catch(|| -> Result<(u64, bool), String> {
            let (cas, buf, nbytes) = serialize_base(&b)?;
            if nbytes != buf.len() {
                return Err(format!("serialize reported {nbytes} bytes, wrote {}", buf.len()));
            }
            // independent parse of what was written
            let r = refs::ref_parse_xorb_v1(&buf).map_err(|e| format!("reference parser rejects serialized xorb: {e}"))?;
            if r.chunks != b.chunks {
                return Err("reference-decoded chunks differ from input".into());
            }
            let mut fallback = false;
            {
                // was the incompressible fallback taken anywhere? (scheme byte 0 although a scheme was asked)
                let mut p = 0usize;
                for ci in 0..n {
                    if buf[p + 4] == 0 && b.scheme != Some(CompressionScheme::None) {
                        fallback = true;
                    }
                    if b.scheme.is_none() && CompressionScheme::choose_from_data(&b.chunks[ci]) == CompressionScheme::ByteGrouping4LZ4 {
                        let mut a = auto_stats.get();
                        a.0 += 1;
                        match buf[p + 4] {
                            0 => a.1 += 1,
                            2 => a.2 += 1,
                            _ => a.3 += 1,
                        }
                        auto_stats.set(a);
                    }
                    let clen = u32::from_le_bytes([buf[p + 1], buf[p + 2], buf[p + 3], 0]) as usize;
                    p += 8 + clen;
                }
            }
            let mut rd = Cursor::new(&buf);
            let cas2 = CasObject::deserialize(&mut rd).map_err(|e| format!("deserialize: {e}"))?;
            if cas2 != cas {
                return Err("deserialized footer differs from serialized one".into());
            }
            if cas2.info.chunk_boundary_offsets != r.boundaries {
                return Err("chunk_boundary_offsets differ from actual chunk ends".into());
            }
            let unp: Vec<u32> = b.cb.iter().map(|x| x.1).collect();
            if cas2.info.unpacked_chunk_offsets != unp {
                return Err("unpacked_chunk_offsets differ from input".into());
            }
            if cas2.info.chunk_hashes != b.cb.iter().map(|x| x.0).collect::<Vec<_>>() || cas2.info.cashash != b.hash {
                return Err("footer hashes differ from input".into());
            }
            if cas2.get_all_bytes(&mut rd).map_err(|e| format!("get_all_bytes: {e}"))? != b.data {
                return Err("get_all_bytes differs from input".into());
            }
            if cas2.get_contents_length().map_err(|e| format!("{e}"))? != *r.boundaries.last().unwrap() {
                return Err("get_contents_length wrong".into());
            }
            let (bs, _) = CasObjectInfoV1::deserialize_only_boundaries_section(&mut Cursor::new(&buf)).map_err(|e| format!("boundaries section: {e}"))?;
            if bs.chunk_boundary_offsets != r.boundaries || bs.unpacked_chunk_offsets != unp {
                return Err("deserialize_only_boundaries_section differs".into());
            }
            // ranges
            let mut ranges: Vec<(usize, usize)> = Vec::new();
            if n <= 40 {
                for a in 0..n {
                    for e in a + 1..=n {
                        ranges.push((a, e));
                    }
                }
            } else {
                for _ in 0..60 {
                    let a = rng.usize_below(n);
                    ranges.push((a, rng.urange(a + 1, n)));
                }
                ranges.push((0, n));
                ranges.push((n - 1, n));
            }
            let starts: Vec<usize> = std::iter::once(0).chain(b.cb.iter().map(|x| x.1 as usize)).collect();
            let cstarts: Vec<usize> = std::iter::once(0).chain(r.boundaries.iter().map(|x| *x as usize)).collect();
            let mut nr = 0u64;
            for (a, e) in ranges {
                let exp = &b.data[starts[a]..starts[e]];
                let got = cas2.get_bytes_by_chunk_range(&mut rd, a as u32, e as u32).map_err(|er| format!("range({a},{e}): {er}"))?;
                if got != exp {
                    return Err(format!("get_bytes_by_chunk_range({a},{e}) differs"));
                }
                if cas2.uncompressed_range_length(a as u32, e as u32).map_err(|er| format!("{er}"))? as usize != exp.len() {
                    return Err(format!("uncompressed_range_length({a},{e}) wrong"));
                }
                let (bs0, be0) = cas2.get_byte_offset(a as u32, e as u32).map_err(|er| format!("{er}"))?;
                if bs0 as usize != cstarts[a] || be0 as usize != cstarts[e] {
                    return Err(format!("get_byte_offset({a},{e}) wrong"));
                }
                // the three chunk-stream decoders on the serialized bytes of this range
                let ser = &buf[cstarts[a]..cstarts[e]];
                let exp_off: Vec<u32> = (a..=e).map(|i| (starts[i] - starts[a]) as u32).collect();
                if nr < 12 || rng.chance(1, 10) {
                    let s1 = cas_object::deserialize_chunks(&mut Cursor::new(ser)).map_err(|er| format!("sync decoder: {er}"))?;
                    let mut sl: &[u8] = ser;
                    let s2 = rt
                        .block_on(cas_object::deserialize_async::deserialize_chunks_from_async_read(&mut sl))
                        .map_err(|er| format!("async decoder: {er}"))?;
                    // stream split at random piece sizes
                    let mut pieces: Vec<Result<Bytes, std::io::Error>> = Vec::new();
                    let mut p = 0;
                    while p < ser.len() {
                        let l = rng.urange(1, (ser.len() - p).min(70000));
                        pieces.push(Ok(Bytes::copy_from_slice(&ser[p..p + l])));
                        p += l;
                    }
                    let s3 = rt
                        .block_on(cas_object::deserialize_async::deserialize_chunks_from_stream(futures::stream::iter(pieces)))
                        .map_err(|er| format!("stream decoder: {er}"))?;
                    if s1.0 != exp || s1.1 != exp_off {
                        return Err(format!("sync chunk decoder wrong on range ({a},{e})"));
                    }
                    if s2 != s1 || s3 != s1 {
                        return Err(format!("chunk decoders disagree on range ({a},{e})"));
                    }
                }
                nr += 1;
            }
            for i in 0..n.min(50) {
                if cas2.uncompressed_chunk_length(i as u32).map_err(|er| format!("{er}"))? as usize != b.chunks[i].len() {
                    return Err(format!("uncompressed_chunk_length({i}) wrong"));
                }
            }
            // the same chunk data behind the legacy (version 0) footer, which readers still accept: whole object,
            // a few ranges and the seekable validator must behave as for the current footer
            if n <= 300 {
                #[allow(deprecated)]
                {
                    let mut v0info = cas_object::CasObjectInfoV0::default();
                    v0info.cashash = cas.info.cashash;
                    v0info.num_chunks = cas.info.num_chunks;
                    v0info.chunk_boundary_offsets = cas.info.chunk_boundary_offsets.clone();
                    v0info.chunk_hashes = cas.info.chunk_hashes.clone();
                    let mut v0 = buf[..*r.boundaries.last().unwrap() as usize].to_vec();
                    let mut footer = Vec::new();
                    let il = v0info.serialize(&mut footer).map_err(|e| format!("v0 footer serialize: {e}"))? as u32;
                    v0.extend_from_slice(&footer);
                    v0.extend_from_slice(&il.to_le_bytes());
                    let mut rd0 = Cursor::new(&v0);
                    let c0 = CasObject::deserialize(&mut rd0).map_err(|e| format!("v0 deserialize: {e}"))?;
                    if c0.info.chunk_boundary_offsets != r.boundaries || c0.info.num_chunks as usize != n {
                        return Err("v0 footer reads back different boundaries".into());
                    }
                    if c0.get_all_bytes(&mut rd0).map_err(|e| format!("v0 get_all_bytes: {e}"))? != b.data {
                        return Err("v0 get_all_bytes differs from input".into());
                    }
                    for _ in 0..4 {
                        let a = rng.usize_below(n);
                        let e = rng.urange(a + 1, n);
                        let got = c0.get_bytes_by_chunk_range(&mut rd0, a as u32, e as u32).map_err(|er| format!("v0 range({a},{e}): {er}"))?;
                        if got != b.data[starts[a]..starts[e]] {
                            return Err(format!("v0 get_bytes_by_chunk_range({a},{e}) differs"));
                        }
                    }
                    if c0.get_contents_length().map_err(|e| format!("v0 contents length: {e}"))? != *r.boundaries.last().unwrap() {
                        return Err("v0 get_contents_length wrong".into());
                    }
                    v0_done.set(v0_done.get() + 1);
                }
            }
            Ok((nr, fallback))
        });
        match res {
            Ok(Ok((nr, fallback))) => {
                rep.count(P, "ranges_checked", nr);
                if fallback {
                    rep.count(P, "xorbs_with_incompressible_fallback", 1);
                }
                if n > 1152 {
                    rep.count(P, "xorbs_with_more_than_1152_chunks", 1);
                }
                let a = auto_stats.get();
                rep.count(P, "legacy_footer_xorbs_read_back", v0_done.get());
                rep.count(P, "auto_chunks_grouping_predicted", a.0);
                rep.count(P, "auto_chunks_grouping_predicted_stored_raw", a.1);
                rep.count(P, "auto_chunks_grouping_predicted_stored_grouped", a.2);
                let sig = format!(
                    "{}|n{}|c{:x}|fb{}|r4:{}",
                    scheme_name(b.scheme),
                    usize::BITS - n.leading_zeros(),
                    b.classes,
                    fallback as u8,
                    b.chunks.iter().map(|c| 1u8 << (c.len() % 4)).fold(0u8, |a, x| a | x)
                );
                rep.case(P, Some(sig));
                if rep.wants_sample(P) {
                    let mut s = w("sample");
                    s["chunk_lens_head"] = json!(b.chunks.iter().take(8).map(|c| c.len()).collect::<Vec<_>>());
                    s["ranges_checked"] = json!(nr);
                    rep.sample(P, s);
                }
            },
            Ok(Err(e)) => {
                let key = e.split(|c: char| c == '(' || c == ':').next().unwrap_or("x").trim().replace(' ', "-");
                rep.violation(P, &format!("xorb-rt-{key}"), &e, w(&e));
                rep.case(P, None);
            },
            Err(p) => {
                rep.violation(P, "xorb-rt-panic", &p, w(&p));
                rep.case(P, None);
            },
        }
    }
}

// ------------------------------------------------------------------------------------------
// C08

/// "Unbounded allocation" is judged relative to the object at hand: a reader may allocate a few times the size of the
/// input plus the unpacked size of the xorb the input was derived from (8x, never less than 12 MiB - an LZ4 frame whose
/// descriptor byte is flipped to the largest block size makes the frame decoder allocate 2 x 4 MiB, which is bounded -
/// never more than 256 MiB);
/// a length field read from hostile bytes must not push it beyond that.
static BASE_UNPACKED_LEN: std::sync::atomic::AtomicUsize = std::sync::atomic::AtomicUsize::new(0);

fn alloc_limit(input_len: usize) -> usize {
    let base = BASE_UNPACKED_LEN.load(std::sync::atomic::Ordering::Relaxed);
    (8 * (input_len + base)).clamp(12 << 20, 256 << 20)
}

#[derive(Debug)]
enum Verdict {
    Accept { footer_kind: &'static str },
    Reject,
    Error,
}

/// What the chunk stream in `bytes[..end]` really is, by the reference decoder.
fn ref_chunks(bytes: &[u8], end: usize) -> Result<(H, Vec<H>, Vec<u32>, Vec<u32>), String> {
    if end > bytes.len() {
        return Err("footer start beyond input".into());
    }
    let r = refs::ref_parse_chunk_stream(&bytes[..end])?;
    let mut unp = Vec::new();
    let mut t = 0u32;
    for c in &r.chunks {
        t += c.len() as u32;
        unp.push(t);
    }
    Ok((r.computed_hash, r.chunk_hashes, r.boundaries, unp))
}

/// accept-soundness oracle: the returned CasObject (the footer relied upon / generated) must match
/// the chunk data decoded by the reference, and the recomputed hash must be `h`.
fn check_accept(bytes: &[u8], footer_start: usize, h: &MerkleHash, cas: &CasObject, has_unpacked: bool) -> Result<(), String> {
    let (computed, hashes, bnds, unp) = ref_chunks(bytes, footer_start).map_err(|e| format!("accepted but chunks do not decode: {e}"))?;
    if computed != hb(h) {
        return Err("accepted but recomputed hash != h".into());
    }
    if hb(&cas.info.cashash) != computed {
        return Err("accepted but footer hash != recomputed".into());
    }
    if cas.info.num_chunks as usize != hashes.len() {
        return Err("accepted but footer num_chunks != decoded chunks".into());
    }
    if cas.info.chunk_hashes.iter().map(hb).collect::<Vec<_>>() != hashes {
        return Err("accepted but footer chunk hashes != decoded".into());
    }
    if cas.info.chunk_boundary_offsets != bnds {
        return Err("accepted but footer boundaries != actual".into());
    }
    if has_unpacked && cas.info.unpacked_chunk_offsets != unp {
        return Err("accepted but footer unpacked offsets != actual".into());
    }
    Ok(())
}

struct CallOutcome {
    verdict: Verdict,
    problem: Option<(String, String)>, // (kf_sig, message)
}

fn monitored<T>(f: impl FnOnce() -> T) -> (Result<T, String>, usize) {
    let base = alloc::window_start();
    let r = xvcommon::catch(f);
    let (peak, largest) = alloc::window_end(base);
    (r, peak.max(largest))
}

fn call_sync(bytes: &[u8], h: &MerkleHash) -> CallOutcome {
    let (r, peak) = monitored(|| CasObject::validate_cas_object(&mut Cursor::new(bytes), h));
    let mut out = CallOutcome {
        verdict: Verdict::Error,
        problem: None,
    };
    if peak > alloc_limit(bytes.len()) {
        out.problem = Some(("val-sync-alloc".into(), format!("sync validator allocated {peak} bytes")));
    }
    match r {
        Err(p) => out.problem = Some(("val-sync-panic".into(), format!("validate_cas_object panicked: {p}"))),
        Ok(Ok(Some(cas))) => {
            let fs = bytes.len().wrapping_sub(4).wrapping_sub(cas.info_length as usize);
            let v1 = cas.info.boundaries_version == 1;
            out.verdict = Verdict::Accept {
                footer_kind: if v1 { "v1" } else { "v0" },
            };
            // a footer converted from the v0 form carries no unpacked offsets; whenever the footer the
            // validator relied on does carry them, they must match the chunk data
            let has_unpacked = v1 || !cas.info.unpacked_chunk_offsets.is_empty();
            if let Err(e) = check_accept(bytes, fs, h, &cas, has_unpacked) {
                out.problem = Some(("val-sync-unsound-accept".into(), e));
            }
        },
        Ok(Ok(None)) => out.verdict = Verdict::Reject,
        Ok(Err(_)) => out.verdict = Verdict::Error,
    }
    out
}

fn call_async(rt: &tokio::runtime::Runtime, bytes: &[u8], h: &MerkleHash) -> CallOutcome {
    let (r, peak) = monitored(|| {
        rt.block_on(async {
            let mut rd = futures::io::Cursor::new(bytes);
            cas_object::validate_cas_object_from_async_read(&mut rd, h).await
        })
    });
    let mut out = CallOutcome {
        verdict: Verdict::Error,
        problem: None,
    };
    if peak > alloc_limit(bytes.len()) {
        out.problem = Some(("val-async-alloc".into(), format!("async validator allocated {peak} bytes")));
    }
    match r {
        Err(p) => out.problem = Some(("val-async-panic".into(), format!("validate_cas_object_from_async_read panicked: {p}"))),
        Ok(Ok(Some((cas, go_back)))) => {
            let (fs, kind, has_unp) = match go_back {
                None => (bytes.len().wrapping_sub(4).wrapping_sub(cas.info_length as usize), "v1", true),
                Some(0) => (bytes.len(), "none", true),
                Some(_) => {
                    // v0 footer: the chunk stream ends where the ident starts
                    let mut p = 0usize;
                    loop {
                        if bytes.len() >= p + 8 && &bytes[p..p + 7] == b"XETBLOB" {
                            break;
                        }
                        match ref_decode_chunk(bytes, p) {
                            Ok((_, np)) => p = np,
                            Err(_) => break,
                        }
                    }
                    (p, "v0", true)
                },
            };
            out.verdict = Verdict::Accept { footer_kind: kind };
            if let Err(e) = check_accept(bytes, fs, h, &cas, has_unp) {
                out.problem = Some(("val-async-unsound-accept".into(), e));
            }
        },
        Ok(Ok(None)) => out.verdict = Verdict::Reject,
        Ok(Err(_)) => out.verdict = Verdict::Error,
    }
    out
}

fn call_parsers(bytes: &[u8]) -> Option<(String, String)> {
    let (r, peak) = monitored(|| {
        let _ = CasObject::deserialize(&mut Cursor::new(bytes));
    });
    if let Err(p) = r {
        return Some(("parse-footer-panic".into(), format!("CasObject::deserialize panicked: {p}")));
    }
    if peak > alloc_limit(bytes.len()) {
        return Some(("parse-footer-alloc".into(), format!("CasObject::deserialize allocated {peak} bytes")));
    }
    // Safety valve of the harness: the boundaries-section parser sizes two vectors by the declared
    // count; a declared count above 2^28 would make this process touch > 1 GiB per call (and up
    // to 16 GiB), which with 16 workers can exhaust the machine.  Such inputs are skipped for
    // this one parser (smaller inflated counts, which are not skipped, already cross the
    // allocation limit and are reported).
    if let Some(c) = boundaries_declared_count(bytes) {
        if c > 0x1000_0000 {
            return None;
        }
    }
    let (r, peak) = monitored(|| {
        let _ = CasObjectInfoV1::deserialize_only_boundaries_section(&mut Cursor::new(bytes));
    });
    if let Err(p) = r {
        return Some(("parse-boundaries-panic".into(), format!("deserialize_only_boundaries_section panicked: {p}")));
    }
    if peak > alloc_limit(bytes.len()) {
        return Some(("parse-boundaries-alloc".into(), format!("deserialize_only_boundaries_section allocated {peak} bytes")));
    }
    let (r, peak) = monitored(|| {
        let _ = cas_object::deserialize_chunks(&mut Cursor::new(bytes));
    });
    if let Err(p) = r {
        return Some(("parse-chunks-panic".into(), format!("deserialize_chunks panicked: {p}")));
    }
    if peak > alloc_limit(bytes.len()).max(bytes.len() * 600) {
        return Some(("parse-chunks-alloc".into(), format!("deserialize_chunks allocated {peak} bytes")));
    }
    None
}

fn boundaries_declared_count(b: &[u8]) -> Option<u32> {
    let l = b.len();
    if l < 24 {
        return None;
    }
    let off = u32::from_le_bytes([b[l - 24], b[l - 23], b[l - 22], b[l - 21]]) as u64 + 4;
    if off > l as u64 {
        return None;
    }
    let start = l - off as usize;
    if start + 12 > l {
        return None;
    }
    Some(u32::from_le_bytes([b[start + 8], b[start + 9], b[start + 10], b[start + 11]]))
}

/// structure map of a serialized v1 xorb: offsets of chunk headers and of the footer
struct Layout {
    chunk_header_offsets: Vec<usize>,
    footer_start: usize,
    len: usize,
}

fn layout(buf: &[u8], n: usize) -> Layout {
    let mut offs = Vec::new();
    let mut p = 0usize;
    for _ in 0..n {
        offs.push(p);
        let clen = u32::from_le_bytes([buf[p + 1], buf[p + 2], buf[p + 3], 0]) as usize;
        p += 8 + clen;
    }
    Layout {
        chunk_header_offsets: offs,
        footer_start: p,
        len: buf.len(),
    }
}

pub fn v0_footer(hash: &H, bnds: &[u32], hashes: &[H]) -> Vec<u8> {
    let mut f = Vec::new();
    f.extend_from_slice(b"XETBLOB");
    f.push(0);
    f.extend_from_slice(hash);
    f.extend_from_slice(&(bnds.len() as u32).to_le_bytes());
    for b in bnds {
        f.extend_from_slice(&b.to_le_bytes());
    }
    for h in hashes {
        f.extend_from_slice(h);
    }
    f.extend_from_slice(&[0u8; 16]);
    let l = f.len() as u32;
    f.extend_from_slice(&l.to_le_bytes());
    f
}

fn apply_mutation(rng: &mut Rng, buf: &[u8], lay: &Layout, other: Option<&(Vec<u8>, Layout)>) -> (Vec<u8>, String) {
    let mut m = buf.to_vec();
    let kind = rng.below(16);
    let name;
    match kind {
        0 => {
            name = "flip-data";
            if lay.footer_start > 0 {
                let p = rng.usize_below(lay.footer_start);
                m[p] ^= 1 << rng.below(8);
            }
        },
        1 => {
            name = "flip-burst";
            let p = rng.usize_below(m.len());
            let l = rng.urange(1, 8).min(m.len() - p);
            for x in &mut m[p..p + l] {
                *x = rng.next_u32() as u8;
            }
        },
        2 => {
            name = "truncate";
            let l = match rng.below(4) {
                0 => rng.usize_below(m.len()),
                1 => lay.footer_start.saturating_sub(rng.usize_below(3)),
                2 => m.len() - rng.urange(1, 24.min(m.len())),
                _ => {
                    let h = *rng.pick(&lay.chunk_header_offsets);
                    (h + rng.usize_below(10)).min(m.len())
                },
            };
            m.truncate(l);
        },
        3 => {
            name = "extend";
            let el = rng.urange(1, 64);
            let extra = rng.bytes(el);
            m.extend_from_slice(&extra);
        },
        4 => {
            name = "dup-chunk";
            let n = lay.chunk_header_offsets.len();
            let i = rng.usize_below(n);
            let s = lay.chunk_header_offsets[i];
            let e = if i + 1 < n { lay.chunk_header_offsets[i + 1] } else { lay.footer_start };
            let piece = m[s..e].to_vec();
            let at = *rng.pick(&lay.chunk_header_offsets);
            m.splice(at..at, piece);
        },
        5 => {
            name = "drop-chunk";
            let n = lay.chunk_header_offsets.len();
            let i = rng.usize_below(n);
            let s = lay.chunk_header_offsets[i];
            let e = if i + 1 < n { lay.chunk_header_offsets[i + 1] } else { lay.footer_start };
            m.drain(s..e);
        },
        6 => {
            name = "swap-chunks";
            let n = lay.chunk_header_offsets.len();
            if n >= 2 {
                let i = rng.usize_below(n - 1);
                let s = lay.chunk_header_offsets[i];
                let mid = lay.chunk_header_offsets[i + 1];
                let e = if i + 2 < n { lay.chunk_header_offsets[i + 2] } else { lay.footer_start };
                let mut piece = m[mid..e].to_vec();
                piece.extend_from_slice(&buf[s..mid]);
                m.splice(s..e, piece);
            }
        },
        7 => {
            name = "foreign-footer";
            if let Some((ob, ol)) = other {
                m.truncate(lay.footer_start);
                m.extend_from_slice(&ob[ol.footer_start..]);
            }
        },
        8 => {
            name = "inflate-count";
            // the three num_chunks copies: hash section, boundary section, toes
            let n = lay.chunk_header_offsets.len();
            let fs = lay.footer_start;
            let p2 = fs + 7 + 1 + 32 + 7 + 1;
            let p3 = p2 + 4 + 32 * n + 7 + 1;
            let pt = p3 + 4 + 8 * n;
            let v: u32 = *rng.pick(&[0xffff_ffffu32, 0x1000_0000, 0x0500_0000, (n as u32) + 1, 0, 0x7fff_ffff]);
            let which = rng.below(8);
            for (bit, p) in [(1u64, p2), (2, p3), (4, pt)] {
                if which == 0 || which & bit != 0 {
                    if p + 4 <= m.len() {
                        m[p..p + 4].copy_from_slice(&v.to_le_bytes());
                    }
                }
            }
        },
        9 => {
            name = "info-length";
            let l = m.len();
            let v: u32 = *rng.pick(&[0u32, 1, 0xffff_ffff, l as u32, (l as u32).wrapping_sub(4), 91, 92, 93]);
            m[l - 4..].copy_from_slice(&v.to_le_bytes());
        },
        10 => {
            name = "chunk-len-field";
            let h = *rng.pick(&lay.chunk_header_offsets);
            let field = if rng.chance(1, 2) { h + 1 } else { h + 5 };
            let v: u32 = *rng.pick(&[0xff_ffffu32, 0, 0x02_0001, 0x04_0001, 1, 0x02_0000]);
            m[field..field + 3].copy_from_slice(&v.to_le_bytes()[..3]);
        },
        11 => {
            name = "chunk-scheme-version";
            let h = *rng.pick(&lay.chunk_header_offsets);
            if rng.chance(1, 2) {
                m[h] = rng.next_u32() as u8;
            } else {
                m[h + 4] = *rng.pick(&[0u8, 1, 2, 3, 65, 255]);
            }
        },
        12 => {
            name = "offsets-from-end";
            let l = m.len();
            // toes: num_chunks(4) hashes_off(4) boundary_off(4) buffer(16) info_len(4)
            let p = l - 4 - 16 - if rng.chance(1, 2) { 4 } else { 8 };
            let v: u32 = *rng.pick(&[0u32, 0xffff_ffff, 0x7fff_fff0, l as u32, 24, 28]);
            m[p..p + 4].copy_from_slice(&v.to_le_bytes());
        },
        13 | 14 => {
            // version downgrade / change of one of the three version bytes, optionally together with a
            // change in the section that the version byte governs
            name = "version-byte+payload";
            let n = lay.chunk_header_offsets.len();
            let fs = lay.footer_start;
            let which = rng.below(3);
            let (vpos, sec_lo, sec_hi) = match which {
                0 => (fs + 7, fs + 8, lay.len - 4),
                1 => (fs + 47, fs + 52, fs + 52 + 32 * n),
                _ => (fs + 59 + 32 * n, fs + 64 + 32 * n, fs + 64 + 40 * n),
            };
            if vpos < m.len() {
                m[vpos] = *rng.pick(&[0u8, 2, 255, m[vpos] ^ 1]);
            }
            if rng.chance(2, 3) && sec_hi > sec_lo && sec_hi <= m.len() {
                let p = rng.urange(sec_lo, sec_hi - 1);
                m[p] = m[p].wrapping_add(rng.range(1, 255) as u8);
            }
        },
        _ => {
            name = "footer-field-random";
            let p = rng.urange(lay.footer_start, lay.len - 1);
            m[p] = rng.next_u32() as u8;
        },
    }
    (m, name.to_string())
}

pub fn run_validate(args: &Args, rep: &mut Report) {
    const P: &str = "C08";
    let rt = rt();
    let muts_per_base = args.usize("mutants", 150);
    let exhaustive_every = args.u64("exhaustive-every", 8);
    let with_parsers = !args.has("no-parsers");

    let mut prev: Option<(Vec<u8>, Layout)> = None;

    for (k, mut rng) in case_iter(args, 0xC08, 40) {
        // small chunks keep a mutant cheap; a few bases use full-size chunks
        let big = rng.chance(1, 10);
        // every 16th base has more chunks than the footer parsers preallocate for (1152): completeness only
        let many = k % 16 == 5;
        let b = if many { gen_base(&mut rng, 8192, 16) } else { gen_base(&mut rng, if big { 40 } else { 12 }, if big { 131072 } else { 700 }) };
        BASE_UNPACKED_LEN.store(b.data.len(), std::sync::atomic::Ordering::Relaxed);
        let many = many && b.chunks.len() > 600;
        let muts_per_base = if many { 6 } else { muts_per_base };
        let n = b.chunks.len();
        let Ok((_cas, buf, _)) = serialize_base(&b) else {
            rep.inconclusive(P, "serialize failed on a valid base");
            continue;
        };
        let lay = layout(&buf, n);
        let wit = |mutation: &str, idx: u64, extra: &str| -> Value {
            let mut w = witness_base(args, "xorb_val", k);
            w["mutation"] = json!(mutation);
            w["mutant_index"] = json!(idx);
            w["n_chunks"] = json!(n);
            w["scheme"] = json!(scheme_name(b.scheme));
            w["detail"] = json!(extra);
            w
        };
        let mut counters: std::collections::BTreeMap<String, u64> = Default::default();
        let mut bump = |k: &str| *counters.entry(k.to_string()).or_insert(0) += 1;

        // ---- completeness on the three valid forms
        let rhashes: Vec<H> = b.cb.iter().map(|x| hb(&x.0)).collect();
        let r = refs::ref_parse_xorb_v1(&buf).expect("reference accepts serialized xorb");
        let footerless = buf[..lay.footer_start].to_vec();
        let mut v0 = footerless.clone();
        v0.extend_from_slice(&v0_footer(&hb(&b.hash), &r.boundaries, &rhashes));
        let mut other_hash = b.hash;
        other_hash[rng.usize_below(4)] ^= 1 << rng.below(64);

        for (form, bytes, sync_expected) in [("v1", &buf, true), ("footerless", &footerless, false), ("v0", &v0, true)] {
            let s = call_sync(bytes, &b.hash);
            let a = call_async(&rt, bytes, &b.hash);
            if sync_expected && !matches!(s.verdict, Verdict::Accept { .. }) {
                rep.violation(P, &format!("val-sync-rejects-valid-{form}"), "sync validator rejects a valid xorb for its own hash", wit("none", 0, form));
            }
            if !matches!(a.verdict, Verdict::Accept { .. }) {
                rep.violation(P, &format!("val-async-rejects-valid-{form}"), "async validator rejects a valid xorb for its own hash", wit("none", 0, form));
            }
            for o in [&s, &a] {
                if let Some((sig, msg)) = &o.problem {
                    rep.violation(P, &format!("{sig}-{form}"), msg, wit("none", 0, form));
                }
            }
            let s2 = call_sync(bytes, &other_hash);
            let a2 = call_async(&rt, bytes, &other_hash);
            if matches!(s2.verdict, Verdict::Accept { .. }) {
                rep.violation(P, "val-sync-accepts-wrong-hash", "sync validator accepts a valid xorb for another hash", wit("none", 0, form));
            }
            if matches!(a2.verdict, Verdict::Accept { .. }) {
                rep.violation(P, "val-async-accepts-wrong-hash", "async validator accepts a valid xorb for another hash", wit("none", 0, form));
            }
            bump("valid_forms_checked");
            if b.chunks.len() > 1152 {
                bump("valid_forms_checked_over_1152_chunks");
            }
        }

        // ---- mutants
        let mut mutants: Vec<(Vec<u8>, String)> = Vec::new();
        let exhaustive = !big && !many && exhaustive_every != 0 && k % exhaustive_every == 0;
        if exhaustive {
            // every byte of every chunk header and of the footer (+ info_length), 4 replacement values each
            let mut positions: Vec<usize> = Vec::new();
            for h in &lay.chunk_header_offsets {
                positions.extend(*h..*h + 8);
            }
            positions.extend(lay.footer_start..buf.len());
            for p in positions {
                for v in [buf[p] ^ 0x01, buf[p] ^ 0x80, buf[p] ^ 0xff, rng.next_u32() as u8] {
                    if v != buf[p] {
                        let mut m = buf.clone();
                        m[p] = v;
                        mutants.push((m, "exh-flip".into()));
                    }
                }
            }
            // truncation at every offset
            for l in 0..buf.len() {
                mutants.push((buf[..l].to_vec(), "exh-truncate".into()));
            }
            bump("bases_with_exhaustive_header_footer_flips");
        }
        for _ in 0..muts_per_base {
            let src: &Vec<u8> = if rng.chance(1, 6) { &v0 } else { &buf };
            if std::ptr::eq(src, &buf) {
                mutants.push(apply_mutation(&mut rng, &buf, &lay, prev.as_ref()));
            } else {
                // v0 form: flips, truncations and count inflation in the v0 footer
                let mut m = v0.clone();
                let fs = lay.footer_start;
                match rng.below(4) {
                    0 => {
                        let p = rng.urange(fs, m.len() - 1);
                        m[p] ^= 1 << rng.below(8);
                    },
                    1 => {
                        let l = rng.urange(fs, m.len() - 1);
                        m.truncate(l);
                    },
                    2 => {
                        let v: u32 = *rng.pick(&[0xffff_ffffu32, 0x1000_0000, 0, n as u32 + 1]);
                        m[fs + 40..fs + 44].copy_from_slice(&v.to_le_bytes());
                    },
                    _ => {
                        let p = rng.usize_below(fs.max(1));
                        m[p] ^= 1 << rng.below(8);
                    },
                }
                mutants.push((m, "v0-mutation".into()));
            }
        }
        // random byte strings
        for _ in 0..8 {
            let l = match rng.below(5) {
                0 => rng.urange(0, 3),
                1 => 8,
                _ => rng.log_range(1, 3000) as usize,
            };
            let mut s = rng.bytes(l);
            if l >= 8 && rng.chance(1, 2) {
                s[..7].copy_from_slice(b"XETBLOB");
                s[7] = rng.below(3) as u8;
            }
            mutants.push((s, "random-bytes".into()));
        }
        mutants.push((Vec::new(), "empty".into()));

        let mut accepted = 0u64;
        for (idx, (m, name)) in mutants.iter().enumerate() {
            let h = if rng.chance(1, 12) { other_hash } else { b.hash };
            let s = call_sync(m, &h);
            let a = call_async(&rt, m, &h);
            for o in [&s, &a] {
                if let Some((sig, msg)) = &o.problem {
                    rep.violation(P, sig, msg, wit(name, idx as u64, &hexb(&m[..m.len().min(48)])));
                }
                if let Verdict::Accept { footer_kind } = &o.verdict {
                    accepted += 1;
                    bump(&format!("mutants_accepted_{footer_kind}"));
                }
            }
            if with_parsers {
                if let Some((sig, msg)) = call_parsers(m) {
                    rep.violation(P, &sig, &msg, wit(name, idx as u64, &hexb(&m[..m.len().min(48)])));
                }
            }
            bump(&format!("mut_{name}"));
            rep.case(P, Some(format!("{name}|{}|n{}|{}", scheme_name(b.scheme), n.min(9), if big { "big" } else { "small" })));
        }
        let _ = accepted;
        for (k2, v) in counters {
            rep.count(P, &k2, v);
        }
        if rep.wants_sample(P) {
            let mut s = wit("sample", 0, "");
            s["mutants"] = json!(mutants.len());
            s["exhaustive_header_footer"] = json!(exhaustive);
            s["xorb_len"] = json!(buf.len());
            rep.sample(P, s);
        }
        prev = Some((buf, lay));
    }
    let _ = mh;
}
