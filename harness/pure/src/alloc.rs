//! Counting global allocator: tracks live bytes and, inside a monitored window, the peak of
//! live bytes and the largest single request.  It remembers no addresses (so it hides nothing
//! from ASan) and is a handful of relaxed atomics per call.
use std::alloc::{GlobalAlloc, Layout, System};
use std::sync::atomic::{AtomicUsize, Ordering};

pub struct Counting;

static LIVE: AtomicUsize = AtomicUsize::new(0);
static PEAK: AtomicUsize = AtomicUsize::new(0);
static LARGEST: AtomicUsize = AtomicUsize::new(0);

unsafe impl GlobalAlloc for Counting {
    unsafe fn alloc(&self, l: Layout) -> *mut u8 {
        let p = System.alloc(l);
        if !p.is_null() {
            note_alloc(l.size());
        }
        p
    }
    unsafe fn alloc_zeroed(&self, l: Layout) -> *mut u8 {
        let p = System.alloc_zeroed(l);
        if !p.is_null() {
            note_alloc(l.size());
        }
        p
    }
    unsafe fn dealloc(&self, p: *mut u8, l: Layout) {
        LIVE.fetch_sub(l.size(), Ordering::Relaxed);
        System.dealloc(p, l)
    }
    unsafe fn realloc(&self, p: *mut u8, l: Layout, new_size: usize) -> *mut u8 {
        let q = System.realloc(p, l, new_size);
        if !q.is_null() {
            LIVE.fetch_sub(l.size(), Ordering::Relaxed);
            note_alloc(new_size);
        }
        q
    }
}

#[inline]
fn note_alloc(n: usize) {
    let live = LIVE.fetch_add(n, Ordering::Relaxed) + n;
    PEAK.fetch_max(live, Ordering::Relaxed);
    LARGEST.fetch_max(n, Ordering::Relaxed);
}

/// Start a monitored window; returns the baseline of live bytes.
pub fn window_start() -> usize {
    let live = LIVE.load(Ordering::Relaxed);
    PEAK.store(live, Ordering::Relaxed);
    LARGEST.store(0, Ordering::Relaxed);
    live
}

/// (peak live bytes above the baseline, largest single request) since window_start.
pub fn window_end(baseline: usize) -> (usize, usize) {
    (PEAK.load(Ordering::Relaxed).saturating_sub(baseline), LARGEST.load(Ordering::Relaxed))
}
