//! xv_pure: engines for the properties that need neither tokio-heavy sessions nor LMDB:
//! C04 (chunker), C05 (dedup answers), C06 (hashes), C07/C08 (xorb format), C09/C10/C18 (shards).
use xvcommon::{Args, Report};

mod alloc;
mod e_chunker;
mod e_deduper;
mod e_mgrconc;
mod e_hash;
mod e_shard;
mod e_xorb;
mod shardgen;

#[global_allocator]
static GLOBAL: alloc::Counting = alloc::Counting;

fn main() {
    xvcommon::quiet_panics();
    let args = Args::parse();
    let mut rep = Report::new();
    let engine = args.pos(0).unwrap_or("").to_string();
    match engine.as_str() {
        "chunker" => e_chunker::run(&args, &mut rep),
        "hash" => e_hash::run(&args, &mut rep),
        "deduper" => e_deduper::run(&args, &mut rep),
        "xorb_rt" => e_xorb::run_roundtrip(&args, &mut rep),
        "xorb_val" => e_xorb::run_validate(&args, &mut rep),
        "shard_fmt" => e_shard::run_format(&args, &mut rep),
        "shard_search" => e_shard::run_search(&args, &mut rep),
        "shard_dedup" => e_shard::run_dedup(&args, &mut rep),
        "shard_setops" => e_shard::run_setops(&args, &mut rep),
        "shard_consolidate" => e_shard::run_consolidate(&args, &mut rep),
        "shard_keyed" => e_shard::run_keyed(&args, &mut rep),
        "shard_expiry" => e_shard::run_expiry(&args, &mut rep),
        "shard_mgr_conc" => e_mgrconc::run(&args, &mut rep),
        other => {
            eprintln!("unknown engine {other:?}");
            std::process::exit(2);
        },
    }
    rep.finish();
}
