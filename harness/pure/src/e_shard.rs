//! C05 (truthful dedup answers), C09 (shard files answer as their model), C10 (set operations and
//! consolidation), C18 (keyed export and expiry).
use std::collections::{BTreeMap, BTreeSet, HashMap};
use std::io::{Cursor, Seek, SeekFrom};
use std::path::{Path, PathBuf};
use std::sync::Arc;
use std::time::Duration;

use mdb_shard::cas_structs::MDBCASInfo;
use mdb_shard::file_structs::{FileDataSequenceEntry, MDBFileInfo};
use mdb_shard::interpolation_search::search_on_sorted_u64s;
use mdb_shard::session_directory::consolidate_shards_in_directory;
use mdb_shard::set_operations::{shard_file_difference, shard_file_union, shard_set_difference, shard_set_union};
use mdb_shard::shard_in_memory::MDBInMemoryShard;
use mdb_shard::streaming_shard::{process_shard_stream, process_shard_stream_async, MDBMinimalShard};
use mdb_shard::{MDBShardFile, MDBShardFileFooter, MDBShardInfo, ShardFileManager};
use merklehash::MerkleHash;
use xvcommon::refs;
use xvcommon::{case_iter, json, witness_base, Args, Report, Rng, Value};

use crate::e_hash::{hb, mh};
use crate::shardgen::*;

type Fail = (String, String);

/// An AsyncRead over a byte slice that hands out at most a few bytes (1..=max, varying) per poll: short reads, as a
/// network body or a small BufReader delivers them.
pub struct Piecewise<'a> {
    data: &'a [u8],
    pos: usize,
    max: usize,
    state: u64,
}

impl<'a> Piecewise<'a> {
    pub fn new(data: &'a [u8], max: usize, seed: u64) -> Self {
        Piecewise { data, pos: 0, max: max.max(1), state: seed | 1 }
    }
}

impl futures::io::AsyncRead for Piecewise<'_> {
    fn poll_read(mut self: std::pin::Pin<&mut Self>, _cx: &mut std::task::Context<'_>, buf: &mut [u8]) -> std::task::Poll<std::io::Result<usize>> {
        self.state = self.state.wrapping_mul(6364136223846793005).wrapping_add(1442695040888963407);
        let want = 1 + (self.state >> 33) as usize % self.max;
        let n = want.min(buf.len()).min(self.data.len() - self.pos);
        let p = self.pos;
        buf[..n].copy_from_slice(&self.data[p..p + n]);
        self.pos += n;
        std::task::Poll::Ready(Ok(n))
    }
}

fn fail<T>(sig: &str, msg: impl Into<String>) -> Result<T, Fail> {
    Err((sig.to_string(), msg.into()))
}

fn ser(mem: &MDBInMemoryShard) -> Result<(MDBShardInfo, Vec<u8>), Fail> {
    let mut v = Vec::new();
    match MDBShardInfo::serialize_from(&mut v, mem) {
        Ok(i) => Ok((i, v)),
        Err(e) => fail("shard-serialize-error", format!("serialize_from failed: {e}")),
    }
}

fn rt() -> tokio::runtime::Runtime {
    tokio::runtime::Builder::new_current_thread().enable_all().build().unwrap()
}

fn file_bytes(f: &MDBFileInfo) -> Vec<u8> {
    let mut v = Vec::new();
    f.serialize(&mut v).unwrap();
    v
}
fn cas_bytes(c: &MDBCASInfo) -> Vec<u8> {
    let mut v = Vec::new();
    c.serialize(&mut v).unwrap();
    v
}

// ------------------------------------------------------------------------------------------
// C09 oracle: a serialized shard vs. the model it was built from

pub struct OracleOpts {
    pub check_sizes: bool,
    pub readers: bool,
    pub max_lookups: usize,
}

pub fn check_shard_against_model(bytes: &[u8], model: &Model, rng: &mut Rng, o: &OracleOpts) -> Result<u64, Fail> {
    let mut rd = Cursor::new(bytes);
    let info = match MDBShardInfo::load_from_reader(&mut rd) {
        Ok(i) => i,
        Err(e) => return fail("shard-load-error", format!("load_from_reader: {e}")),
    };
    let mut lookups = 0u64;
    if info.num_file_entries() != model.files.len() {
        return fail("shard-num-files", format!("num_file_entries {} != model {}", info.num_file_entries(), model.files.len()));
    }
    if info.num_cas_entries() != model.cas.len() {
        return fail("shard-num-cas", format!("num_cas_entries {} != model {}", info.num_cas_entries(), model.cas.len()));
    }
    // scans
    let files = info.read_all_file_info_sections(&mut rd).map_err(|e| ("shard-scan-error".to_string(), format!("{e}")))?;
    let want_files: Vec<&MDBFileInfo> = model.files.values().collect();
    if files.len() != want_files.len() || files.iter().zip(want_files.iter()).any(|(a, b)| a != *b) {
        return fail("shard-scan-files", "read_all_file_info_sections differs from model");
    }
    let cas = info.read_all_cas_blocks_full(&mut rd).map_err(|e| ("shard-scan-error".to_string(), format!("{e}")))?;
    let want_cas: Vec<&MDBCASInfo> = model.cas.values().collect();
    if cas.len() != want_cas.len() || cas.iter().zip(want_cas.iter()).any(|(a, b)| a != *b) {
        return fail("shard-scan-cas", "read_all_cas_blocks_full differs from model");
    }
    let headers = info.read_all_cas_blocks(&mut rd).map_err(|e| ("shard-scan-error".to_string(), format!("{e}")))?;
    if headers.len() != want_cas.len() || headers.iter().zip(want_cas.iter()).any(|(a, b)| a.0 != b.metadata) {
        return fail("shard-scan-cas-headers", "read_all_cas_blocks differs from model");
    }
    // truncated hashes: multiset of (trunc(chunk hash), (cas entry index, chunk index))
    let trunc = info.read_all_truncated_hashes(&mut rd).map_err(|e| ("shard-scan-error".to_string(), format!("{e}")))?;
    let mut want_trunc: Vec<(u64, (u32, u32))> = Vec::new();
    let mut idx = 0u32;
    let mut cas_index_of: HashMap<MerkleHash, u32> = HashMap::new();
    for c in model.cas.values() {
        cas_index_of.insert(c.metadata.cas_hash, idx);
        for (i, ch) in c.chunks.iter().enumerate() {
            want_trunc.push((ch.chunk_hash[0], (idx, i as u32)));
        }
        idx += 1 + c.chunks.len() as u32;
    }
    let mut got_trunc = trunc.clone();
    got_trunc.sort();
    want_trunc.sort();
    if got_trunc != want_trunc {
        return fail("shard-chunk-lookup-table", "read_all_truncated_hashes differs from model");
    }
    if info.metadata.chunk_lookup_num_entry != 0 && trunc.windows(2).any(|w| w[0].0 > w[1].0) {
        return fail("shard-chunk-lookup-unsorted", "chunk lookup table is not sorted by key");
    }
    let cl = info.read_full_cas_lookup(&mut rd).map_err(|e| ("shard-scan-error".to_string(), format!("{e}")))?;
    let want_cl: Vec<(u64, u32)> = model.cas.values().map(|c| (c.metadata.cas_hash[0], cas_index_of[&c.metadata.cas_hash])).collect();
    if cl != want_cl {
        return fail("shard-cas-lookup-table", "cas lookup table differs from model");
    }
    // footer totals
    let stored: u64 = model.cas.values().map(|c| c.metadata.num_bytes_in_cas as u64).sum();
    let on_disk: u64 = model.cas.values().map(|c| c.metadata.num_bytes_on_disk as u64).sum();
    let mat: u64 = model.files.values().map(|f| f.segments.iter().map(|s| s.unpacked_segment_bytes as u64).sum::<u64>()).sum();
    if o.check_sizes {
        if info.stored_bytes() != stored || info.materialized_bytes() != mat || info.stored_bytes_on_disk() != on_disk {
            return fail("shard-footer-totals", format!("footer totals ({}, {}, {}) != model ({stored}, {mat}, {on_disk})", info.stored_bytes(), info.materialized_bytes(), info.stored_bytes_on_disk()));
        }
        if info.num_bytes() != bytes.len() as u64 {
            return fail("shard-num-bytes", format!("num_bytes {} != file length {}", info.num_bytes(), bytes.len()));
        }
    }
    // lookups: present file hashes
    let file_keys: Vec<&MerkleHash> = model.files.keys().collect();
    let nf = file_keys.len();
    let file_probe: Vec<usize> = if nf <= o.max_lookups { (0..nf).collect() } else { (0..o.max_lookups).map(|_| rng.usize_below(nf)).collect() };
    for i in file_probe {
        let h = file_keys[i];
        lookups += 1;
        match info.get_file_reconstruction_info(&mut rd, h) {
            Ok(Some(fi)) if fi == model.files[h] => {},
            Ok(Some(_)) => return fail("shard-file-lookup-wrong", "file lookup returned a different record"),
            Ok(None) => return fail("shard-file-lookup-missing", "present file hash not found"),
            Err(e) => return fail("shard-file-lookup-error", format!("file lookup error: {e}")),
        }
        // an absent hash with the same 64-bit prefix
        if rng.chance(1, 3) {
            let a = same_prefix(rng, h);
            if !model.files.contains_key(&a) {
                lookups += 1;
                match info.get_file_reconstruction_info(&mut rd, &a) {
                    Ok(None) => {},
                    Ok(Some(_)) => return fail("shard-file-lookup-phantom", "absent file hash (shared prefix) returned a record"),
                    Err(e) => return fail("shard-file-lookup-error", format!("file lookup error on absent key: {e}")),
                }
            }
        }
    }
    for _ in 0..8 {
        let a = rand_hash(rng);
        if !model.files.contains_key(&a) {
            lookups += 1;
            match info.get_file_reconstruction_info(&mut rd, &a) {
                Ok(None) => {},
                Ok(Some(_)) => return fail("shard-file-lookup-phantom", "absent file hash returned a record"),
                Err(e) => return fail("shard-file-lookup-error", format!("{e}")),
            }
        }
    }
    // lookups: xorbs through the cas lookup table, then the record at the returned index
    let cas_keys: Vec<&MerkleHash> = model.cas.keys().collect();
    let nc = cas_keys.len();
    let cas_probe: Vec<usize> = if nc <= o.max_lookups { (0..nc).collect() } else { (0..o.max_lookups).map(|_| rng.usize_below(nc)).collect() };
    for i in cas_probe {
        let h = cas_keys[i];
        let mut dest = [0u32; 8];
        lookups += 1;
        let n = match info.get_cas_info_index_by_hash(&mut rd, h, &mut dest) {
            Ok(n) => n,
            Err(e) => return fail("shard-cas-lookup-error", format!("cas lookup error: {e}")),
        };
        let mut found = false;
        for &ix in &dest[..n] {
            rd.seek(SeekFrom::Start(info.metadata.cas_info_offset + 48 * ix as u64)).unwrap();
            if let Ok(Some(c)) = MDBCASInfo::deserialize(&mut rd) {
                if c.metadata.cas_hash == *h {
                    if c != model.cas[h] {
                        return fail("shard-cas-lookup-wrong", "cas lookup leads to a different record");
                    }
                    found = true;
                }
            }
        }
        if !found {
            return fail("shard-cas-lookup-missing", "present xorb hash not found through the lookup table");
        }
        if rng.chance(1, 3) {
            let a = same_prefix(rng, h);
            if !model.cas.contains_key(&a) {
                let n = info.get_cas_info_index_by_hash(&mut rd, &a, &mut dest).map_err(|e| ("shard-cas-lookup-error".to_string(), format!("{e}")))?;
                for &ix in &dest[..n] {
                    rd.seek(SeekFrom::Start(info.metadata.cas_info_offset + 48 * ix as u64)).unwrap();
                    if let Ok(Some(c)) = MDBCASInfo::deserialize(&mut rd) {
                        if c.metadata.cas_hash == a {
                            return fail("shard-cas-lookup-phantom", "absent xorb hash found");
                        }
                    }
                }
            }
        }
    }
    if !o.readers {
        return Ok(lookups);
    }
    // streaming readers and the minimal shard must see the same records
    let want_f: Vec<Vec<u8>> = model.files.values().map(file_bytes).collect();
    let want_c: Vec<Vec<u8>> = model.cas.values().map(cas_bytes).collect();
    {
        let mut got_f = Vec::new();
        let mut got_c = Vec::new();
        let r = process_shard_stream(
            &mut Cursor::new(bytes),
            Some(|fv: mdb_shard::file_structs::MDBFileInfoView| {
                let mut v = Vec::new();
                fv.serialize(&mut v)?;
                got_f.push(v);
                Ok(())
            }),
            Some(|cv: mdb_shard::cas_structs::MDBCASInfoView| {
                let mut v = Vec::new();
                cv.serialize(&mut v)?;
                got_c.push(v);
                Ok(())
            }),
        );
        if let Err(e) = r {
            return fail("shard-stream-error", format!("process_shard_stream: {e}"));
        }
        if got_f != want_f || got_c != want_c {
            return fail("shard-stream-differs", "process_shard_stream records differ from model");
        }
    }
    {
        let rt = rt();
        let mut got_f = Vec::new();
        let mut got_c = Vec::new();
        // delivered in short pieces (<= 7 / 100 / 4096 bytes per poll)
        let piece_max = [7usize, 100, 4096][(bytes.len() + want_f.len()) % 3];
        let r = rt.block_on(async {
            let mut ar = Piecewise::new(bytes, piece_max, bytes.len() as u64);
            process_shard_stream_async(
                &mut ar,
                Some(|fv: mdb_shard::file_structs::MDBFileInfoView| {
                    let mut v = Vec::new();
                    fv.serialize(&mut v)?;
                    got_f.push(v);
                    Ok(())
                }),
                Some(|cv: mdb_shard::cas_structs::MDBCASInfoView| {
                    let mut v = Vec::new();
                    cv.serialize(&mut v)?;
                    got_c.push(v);
                    Ok(())
                }),
            )
            .await
        });
        if let Err(e) = r {
            return fail("shard-stream-async-error", format!("process_shard_stream_async: {e}"));
        }
        if got_f != want_f || got_c != want_c {
            return fail("shard-stream-async-differs", "process_shard_stream_async records differ from model");
        }
        let ms = MDBMinimalShard::from_reader(&mut Cursor::new(bytes), true, true).map_err(|e| ("shard-minimal-error".to_string(), format!("{e}")))?;
        let ms2 = rt
            .block_on(async {
                let mut ar = Piecewise::new(bytes, piece_max, 7 + bytes.len() as u64);
                MDBMinimalShard::from_reader_async(&mut ar, true, true).await
            })
            .map_err(|e| ("shard-minimal-async-error".to_string(), format!("{e}")))?;
        if ms != ms2 {
            return fail("shard-minimal-sync-vs-async", "MDBMinimalShard sync and async readers differ");
        }
        if ms.num_files() != want_f.len() || ms.num_cas() != want_c.len() {
            return fail("shard-minimal-counts", "MDBMinimalShard record counts differ from model");
        }
        for (i, f) in model.files.values().enumerate() {
            let v = ms.file(i);
            let mut b = Vec::new();
            v.serialize(&mut b).unwrap();
            if b != want_f[i] || v.file_hash() != f.metadata.file_hash || v.num_entries() != f.segments.len() {
                return fail("shard-minimal-file", "MDBMinimalShard file view differs from model");
            }
            for (j, s) in f.segments.iter().enumerate().take(3) {
                if v.entry(j) != *s {
                    return fail("shard-minimal-file-entry", "MDBMinimalShard file entry differs");
                }
                if f.contains_verification() && v.verification(j) != f.verification[j] {
                    return fail("shard-minimal-file-verification", "MDBMinimalShard verification entry differs");
                }
            }
        }
        for (i, c) in model.cas.values().enumerate() {
            let v = ms.cas(i);
            let mut b = Vec::new();
            v.serialize(&mut b).unwrap();
            if b != want_c[i] || v.cas_hash() != c.metadata.cas_hash {
                return fail("shard-minimal-cas", "MDBMinimalShard cas view differs from model");
            }
            if !c.chunks.is_empty() {
                let j = rng.usize_below(c.chunks.len());
                if v.chunk(j) != c.chunks[j] {
                    return fail("shard-minimal-cas-chunk", "MDBMinimalShard chunk differs");
                }
            }
        }
    }
    Ok(lookups)
}

pub fn run_format(args: &Args, rep: &mut Report) {
    const P: &str = "C09";
    let scale = args.usize("scale", 4);
    for (k, mut rng) in case_iter(args, 0xC09, 40) {
        let p = rand_params(&mut rng, scale);
        let model = gen_model(&mut rng, &p);
        let mem = to_mem(&model);
        let n_chunks: usize = model.cas.values().map(|c| c.chunks.len()).sum();
        let w = |what: &str| {
            let mut w = witness_base(args, "shard_fmt", k);
            w["files"] = json!(model.files.len());
            w["xorbs"] = json!(model.cas.len());
            w["chunks"] = json!(n_chunks);
            w["spaces"] = json!(format!("{:?}/{:?}/{:?}", p.file_space, p.cas_space, p.chunk_space));
            w["what"] = json!(what);
            w
        };
        let res = xvcommon::catch(|| -> Result<u64, Fail> {
            let (_info, bytes) = ser(&mem)?;
            if bytes.len() as u64 != mem.shard_file_size() {
                return fail("shard-size-accounting", format!("written {} bytes, shard_file_size() {}", bytes.len(), mem.shard_file_size()));
            }
            check_shard_against_model(
                &bytes,
                &model,
                &mut rng,
                &OracleOpts {
                    check_sizes: true,
                    readers: true,
                    max_lookups: 400,
                },
            )
        });
        match res {
            Ok(Ok(lookups)) => {
                rep.count(P, "lookups", lookups);
                let sig = format!(
                    "f{}|x{}|c{}|{:?}/{:?}/{:?}|fl{:?}",
                    bk(model.files.len()),
                    bk(model.cas.len()),
                    bk(n_chunks),
                    p.file_space,
                    p.cas_space,
                    p.chunk_space,
                    p.flags
                );
                rep.case(P, if model.files.len() + model.cas.len() >= 2 { Some(sig) } else { None });
                if rep.wants_sample(P) {
                    rep.sample(P, w("sample"));
                }
            },
            Ok(Err((sig, msg))) => {
                rep.violation(P, &sig, &msg, w(&msg));
                rep.case(P, None);
            },
            Err(pn) => {
                rep.violation(P, "shard-format-panic", &pn, w(&pn));
                rep.case(P, None);
            },
        }
    }
}

fn bk(n: usize) -> u32 {
    if n == 0 {
        0
    } else {
        usize::BITS - n.leading_zeros()
    }
}

pub fn run_search(args: &Args, rep: &mut Report) {
    const P: &str = "C09";
    let max_n = args.usize("max-table", 50000);
    for (k, mut rng) in case_iter(args, 0x5EA, 60) {
        let n = match rng.below(8) {
            0 => rng.urange(0, 3),
            1 => rng.urange(250, 262),
            _ => rng.log_range(1, max_n as u64) as usize,
        };
        let class = rng.below(5);
        let mut keys: Vec<u64> = Vec::with_capacity(n);
        let base = rng.next_u64();
        let mut kg = KeyGen::new(&mut rng, [KeySpace::Uniform, KeySpace::Clustered, KeySpace::Extremes, KeySpace::Collisions][(class % 4) as usize], 7);
        let _ = base;
        if class == 4 {
            // all equal (up to the result capacity - 1) or few distinct values
            let v = *rng.pick(&[0u64, u64::MAX, 1 << 63, 12345]);
            let m = n.min(7);
            keys.extend(std::iter::repeat(v).take(m));
            for _ in m..n {
                keys.push(rng.next_u64());
            }
        } else {
            let mut cnt: HashMap<u64, usize> = HashMap::new();
            while keys.len() < n {
                let w = kg.word0(&mut rng);
                let c = cnt.entry(w).or_insert(0);
                if *c < 7 {
                    *c += 1;
                    keys.push(w);
                }
            }
        }
        let mut pairs: Vec<(u64, u32)> = keys.iter().enumerate().map(|(i, k)| (*k, i as u32)).collect();
        pairs.sort_by_key(|p| p.0);
        let start_pad = rng.urange(0, 40);
        let mut data = vec![0xAAu8; start_pad];
        for (k2, v) in &pairs {
            data.extend_from_slice(&k2.to_le_bytes());
            data.extend_from_slice(&v.to_le_bytes());
        }
        data.extend_from_slice(&[0x55u8; 16]);
        let mut expect: BTreeMap<u64, BTreeSet<u32>> = BTreeMap::new();
        for (k2, v) in &pairs {
            expect.entry(*k2).or_default().insert(*v);
        }
        let w = |what: String, key: u64| {
            let mut w = witness_base(args, "shard_search", k);
            w["n"] = json!(n);
            w["class"] = json!(class);
            w["key"] = json!(format!("{key:#x}"));
            w["what"] = json!(what);
            w
        };
        let mut queries: Vec<u64> = expect.keys().cloned().collect();
        let present: Vec<u64> = queries.clone();
        for k2 in present.iter().take(3000) {
            queries.push(k2.wrapping_add(1));
            queries.push(k2.wrapping_sub(1));
        }
        queries.extend_from_slice(&[0, 1, u64::MAX, u64::MAX - 1, 1 << 63]);
        for _ in 0..50 {
            queries.push(rng.next_u64());
        }
        let mut bad = false;
        let mut nq = 0u64;
        for q in queries {
            let mut dest = [0u32; 8];
            let r = xvcommon::catch(|| {
                search_on_sorted_u64s(&mut Cursor::new(&data), start_pad as u64, n as u64, q, utils::serialization_utils::read_u32::<Cursor<&Vec<u8>>>, &mut dest)
            });
            nq += 1;
            match r {
                Ok(Ok(cnt)) => {
                    let got: BTreeSet<u32> = dest[..cnt.min(8)].iter().cloned().collect();
                    let want = expect.get(&q).cloned().unwrap_or_default();
                    if got != want || cnt != want.len() {
                        rep.violation(P, "search-wrong-result", "search_on_sorted_u64s returned a wrong value set", w(format!("got {got:?} want {want:?}"), q));
                        bad = true;
                        break;
                    }
                },
                Ok(Err(e)) => {
                    rep.violation(P, "search-io-error", &format!("search_on_sorted_u64s error: {e}"), w(format!("{e}"), q));
                    bad = true;
                    break;
                },
                Err(pn) => {
                    rep.violation(P, "search-panic", &pn, w(pn.clone(), q));
                    bad = true;
                    break;
                },
            }
        }
        rep.count(P, "search_queries", nq);
        if n > 256 {
            rep.count(P, "tables_beyond_read_window", 1);
        }
        rep.case(P, if bad || n < 2 { None } else { Some(format!("search|n{}|c{class}", bk(n))) });
    }
}

// ------------------------------------------------------------------------------------------
// C05

pub type Truth = HashMap<MerkleHash, Vec<(MerkleHash, u32)>>;

pub fn truth_of(m: &Model) -> Truth {
    m.cas.values().map(|c| (c.metadata.cas_hash, c.chunks.iter().map(|x| (x.chunk_hash, x.unpacked_segment_bytes)).collect())).collect()
}

pub fn check_answer(truth: &Truth, q: &[MerkleHash], ans: &Option<(usize, FileDataSequenceEntry)>) -> Result<bool, Fail> {
    let Some((n, e)) = ans else {
        return Ok(false);
    };
    if *n == 0 {
        return fail("dedup-zero-match", "answer reports a match of 0 chunks");
    }
    if *n > q.len() {
        return fail("dedup-too-many", format!("answer matches {n} > query length {}", q.len()));
    }
    let Some(x) = truth.get(&e.cas_hash) else {
        return fail("dedup-unknown-xorb", "answer names a xorb that was never added");
    };
    let (a, b) = (e.chunk_index_start as usize, e.chunk_index_end as usize);
    if b < a || b - a != *n || b > x.len() {
        return fail("dedup-bad-range", format!("answer range [{a},{b}) inconsistent with n={n} / xorb of {} chunks", x.len()));
    }
    let mut bytes = 0u64;
    for i in 0..*n {
        // compared as bytes: the oracle must not depend on the hash type's own equality
        if x[a + i].0.as_bytes() != q[i].as_bytes() {
            return fail("dedup-wrong-hash", format!("xorb chunk {} is not query hash {i}", a + i));
        }
        bytes += x[a + i].1 as u64;
    }
    if bytes != e.unpacked_segment_bytes as u64 {
        return fail("dedup-wrong-bytes", format!("reported {} bytes, chunks sum to {bytes}", e.unpacked_segment_bytes));
    }
    Ok(true)
}

pub struct QueryGen {
    xorbs: Vec<MerkleHash>,
    prefix_mult: HashMap<u64, usize>,
}

impl QueryGen {
    pub fn new(truth: &Truth) -> Self {
        let mut prefix_mult: HashMap<u64, usize> = HashMap::new();
        let mut xorbs: Vec<MerkleHash> = truth.keys().cloned().collect();
        xorbs.sort();
        for v in truth.values() {
            for (h, _) in v {
                *prefix_mult.entry(h[0]).or_insert(0) += 1;
            }
        }
        QueryGen { xorbs, prefix_mult }
    }
    /// returns (query, kind)
    pub fn gen(&self, rng: &mut Rng, truth: &Truth) -> (Vec<MerkleHash>, &'static str) {
        let nonempty: Vec<&MerkleHash> = self.xorbs.iter().filter(|x| !truth[*x].is_empty()).collect();
        if nonempty.is_empty() || rng.chance(1, 10) {
            return ((0..rng.urange(1, 5)).map(|_| rand_hash(rng)).collect(), "absent");
        }
        let xh = *rng.pick(&nonempty);
        let x = &truth[xh];
        let a = rng.usize_below(x.len());
        match rng.below(7) {
            6 => {
                // the tail of a xorb followed by what lies behind its last chunk entry in a shard file: the next xorb's
                // header (its first 32 bytes are that xorb's hash; shards are sorted by xorb hash) or the bookend
                let a = x.len() - rng.urange(1, x.len().min(3));
                let mut q: Vec<MerkleHash> = x[a..].iter().map(|c| c.0).collect();
                let pos = self.xorbs.iter().position(|h| h == xh).unwrap();
                let next = match rng.below(4) {
                    0 => MerkleHash::from(&[0xffu8; 32]),
                    1 => *xh,
                    _ => self.xorbs.get(pos + 1).copied().unwrap_or(MerkleHash::from(&[0xffu8; 32])),
                };
                q.push(next);
                if rng.chance(1, 2) {
                    q.push(rand_hash(rng));
                }
                (q, "tail-then-next-header")
            },
            0 => {
                let l = rng.urange(1, x.len() - a);
                (x[a..a + l].iter().map(|c| c.0).collect(), "run")
            },
            1 => {
                // continue past the xorb end
                let mut q: Vec<MerkleHash> = x[a..].iter().map(|c| c.0).collect();
                let y = &truth[*rng.pick(&nonempty)];
                q.extend(y.iter().take(rng.urange(1, 4)).map(|c| c.0));
                (q, "past-end")
            },
            2 => {
                let l = rng.urange(1, x.len() - a);
                let mut q: Vec<MerkleHash> = x[a..a + l].iter().map(|c| c.0).collect();
                let kdiv = rng.usize_below(q.len());
                q[kdiv] = match rng.below(4) {
                    0 => same_prefix(rng, &q[kdiv]),
                    1 => rand_hash(rng),
                    // twins differing from the stored hash in a single 64-bit word (the last one, or a middle one)
                    2 => MerkleHash::from([q[kdiv][0], q[kdiv][1], q[kdiv][2], q[kdiv][3] ^ (1u64 << rng.below(64))]),
                    _ => {
                        let wd = rng.urange(1, 2);
                        let mut ws = [q[kdiv][0], q[kdiv][1], q[kdiv][2], q[kdiv][3]];
                        ws[wd] = rng.next_u64();
                        MerkleHash::from(ws)
                    },
                };
                (q, "diverge")
            },
            3 => (vec![same_prefix(rng, &x[a].0)], "absent-shared-prefix"),
            4 => (vec![x[a].0], "single"),
            _ => {
                let l = rng.urange(1, (x.len() - a).min(6));
                let mut q: Vec<MerkleHash> = x[a..a + l].iter().map(|c| c.0).collect();
                q.push(rand_hash(rng));
                (q, "run-then-random")
            },
        }
    }
    pub fn collides(&self, h: &MerkleHash) -> bool {
        self.prefix_mult.get(&h[0]).copied().unwrap_or(0) >= 2
    }
}

fn c05_params(rng: &mut Rng) -> GenParams {
    let spaces = [KeySpace::Uniform, KeySpace::Collisions, KeySpace::Collisions, KeySpace::Extremes];
    GenParams {
        n_cas: rng.urange(1, 25),
        max_chunks_per_cas: *rng.pick(&[6usize, 60, 400, 2500]),
        n_files: rng.urange(0, 5),
        cas_space: KeySpace::Uniform,
        chunk_space: *rng.pick(&spaces),
        file_space: KeySpace::Uniform,
        max_group_keys: 3,
        max_group_chunks: *rng.pick(&[2usize, 5, 9, 14]),
        dup_chunks: rng.chance(2, 3),
        flags: None,
    }
}

fn write_model_shard(dir: &Path, m: &Model) -> Result<PathBuf, Fail> {
    to_mem(m).write_to_directory(dir).map_err(|e| ("shard-write-error".to_string(), format!("{e}")))
}

pub fn run_dedup(args: &Args, rep: &mut Report) {
    const P: &str = "C05";
    let nq = args.usize("queries", 300);
    let rt = rt();
    for (k, mut rng) in case_iter(args, 0xC05, 30) {
        let mut p = c05_params(&mut rng);
        let big_offsets = rng.chance(1, 12);
        if big_offsets {
            // a xorb with more than 65535 chunks (chunk offsets beyond the manager's u16 filter)
            p.n_cas = 2;
            p.max_chunks_per_cas = 70000;
        }
        let mut model = gen_model(&mut rng, &p);
        if big_offsets {
            let h = rand_hash(&mut rng);
            let mut ck = KeyGen::new(&mut rng, KeySpace::Uniform, 2);
            let mut pool = Vec::new();
            let nbig = 66000 + rng.urange(0, 3000);
            let c = gen_cas(&mut rng, h, nbig, &mut ck, &mut pool, false);
            model.cas.insert(h, c);
        }
        let truth = truth_of(&model);
        let qg = QueryGen::new(&truth);
        let layer = k % 3;
        let w = |what: &str, kind: &str| {
            let mut w = witness_base(args, "shard_dedup", k);
            w["layer"] = json!(["in-memory", "serialized", "manager"][layer as usize]);
            w["xorbs"] = json!(model.cas.len());
            w["query_kind"] = json!(kind);
            w["what"] = json!(what);
            w
        };
        let mut hits = 0u64;
        let mut partial = 0u64;
        let mut coll = 0u64;
        let mut misses = 0u64;
        let mut record = |q: &[MerkleHash], kind: &'static str, ans: Result<Option<(usize, FileDataSequenceEntry)>, String>, rep: &mut Report, op: &str| -> bool {
            match ans {
                Err(e) => {
                    // an error (e.g. more than 7 colliding file keys) is not an answer; count it
                    rep.count(P, "query_errors", 1);
                    let _ = e;
                    true
                },
                Ok(a) => match check_answer(&truth, q, &a) {
                    Ok(true) => {
                        let n = a.as_ref().unwrap().0;
                        hits += 1;
                        if n < q.len() {
                            partial += 1;
                        }
                        if qg.collides(&q[0]) {
                            coll += 1;
                        }
                        true
                    },
                    Ok(false) => {
                        misses += 1;
                        true
                    },
                    Err((sig, msg)) => {
                        rep.violation(P, &sig, &msg, w(&format!("{msg} (after {op})"), kind));
                        false
                    },
                },
            }
        };
        let mut ok = true;
        let res = xvcommon::catch(|| -> Result<(), Fail> {
            match layer {
                0 => {
                    let mem = to_mem(&model);
                    for _ in 0..nq {
                        let (q, kind) = qg.gen(&mut rng, &truth);
                        ok &= record(&q, kind, Ok(mem.chunk_hash_dedup_query(&q)), rep, "in-memory");
                    }
                },
                1 => {
                    let (info, bytes) = ser(&to_mem(&model))?;
                    let mut rd = Cursor::new(&bytes);
                    for _ in 0..nq {
                        let (q, kind) = qg.gen(&mut rng, &truth);
                        let a = info.chunk_hash_dedup_query(&mut rd, &q).map_err(|e| format!("{e}"));
                        ok &= record(&q, kind, a, rep, "serialized");
                    }
                },
                _ => {
                    // history against a ShardFileManager over a directory
                    let dir = tempfile::tempdir().map_err(|e| ("io".to_string(), format!("{e}")))?;
                    let other = tempfile::tempdir().map_err(|e| ("io".to_string(), format!("{e}")))?;
                    let all_cas: Vec<MDBCASInfo> = model.cas.values().cloned().collect();
                    let mut pending: Vec<MDBCASInfo> = all_cas.clone();
                    rng.shuffle(&mut pending);
                    let mut mgr: Arc<ShardFileManager> = rt
                        .block_on(ShardFileManager::new_in_session_directory(dir.path()))
                        .map_err(|e| ("manager-open".to_string(), format!("{e}")))?;
                    let mut ops_done: Vec<String> = Vec::new();
                    let mut keys_used = 0usize;
                    let steps = rng.urange(3, 10);
                    for step in 0..steps {
                        let op = if step == 0 { 0 } else { rng.below(6) };
                        let opname;
                        match op {
                            0 | 1 => {
                                opname = "add";
                                let take = rng.urange(1, 4).min(pending.len());
                                for _ in 0..take {
                                    let c = pending.pop().unwrap();
                                    rt.block_on(mgr.add_cas_block(c)).map_err(|e| ("manager-add".to_string(), format!("{e}")))?;
                                }
                                // sometimes re-add an old block (history, not content)
                                if rng.chance(1, 4) {
                                    let c = rng.pick(&all_cas).clone();
                                    if !pending.iter().any(|p2| p2.metadata.cas_hash == c.metadata.cas_hash) {
                                        rt.block_on(mgr.add_cas_block(c)).map_err(|e| ("manager-add".to_string(), format!("{e}")))?;
                                    }
                                }
                            },
                            2 => {
                                opname = "flush";
                                rt.block_on(mgr.flush()).map_err(|e| ("manager-flush".to_string(), format!("{e}")))?;
                            },
                            3 => {
                                opname = "register-external";
                                // a shard written by "someone else" into the directory, then registered
                                let take = rng.urange(1, 3).min(pending.len());
                                let mut sub = Model::default();
                                for _ in 0..take {
                                    let c = pending.pop().unwrap();
                                    sub.cas.insert(c.metadata.cas_hash, c);
                                }
                                if !sub.cas.is_empty() {
                                    let pth = write_model_shard(dir.path(), &sub)?;
                                    rt.block_on(mgr.register_shards_by_path(&[pth])).map_err(|e| ("manager-register".to_string(), format!("{e}")))?;
                                }
                            },
                            4 => {
                                opname = "consolidate-reopen";
                                rt.block_on(mgr.flush()).map_err(|e| ("manager-flush".to_string(), format!("{e}")))?;
                                let target = *rng.pick(&[1u64, 2000, 100_000, 64 << 20]);
                                consolidate_shards_in_directory(dir.path(), target).map_err(|e| ("consolidate".to_string(), format!("{e}")))?;
                                mgr = rt
                                    .block_on(ShardFileManager::new_in_session_directory(dir.path()))
                                    .map_err(|e| ("manager-open".to_string(), format!("{e}")))?;
                            },
                            _ => {
                                opname = "keyed-export";
                                // export one registered shard under an HMAC key into the directory
                                rt.block_on(mgr.flush()).map_err(|e| ("manager-flush".to_string(), format!("{e}")))?;
                                let shards = MDBShardFile::load_all_valid(dir.path()).map_err(|e| ("load".to_string(), format!("{e}")))?;
                                let unkeyed: Vec<_> = shards.iter().filter(|s| s.chunk_hmac_key().is_none()).collect();
                                if !unkeyed.is_empty() && keys_used < 3 {
                                    keys_used += 1;
                                    let s = *rng.pick(&unkeyed);
                                    let key = rand_hash(&mut rng);
                                    let exported = s
                                        .export_as_keyed_shard(other.path(), key, Duration::from_secs(3600), rng.chance(1, 2), rng.chance(1, 2), rng.chance(1, 2))
                                        .map_err(|e| ("keyed-export".to_string(), format!("{e}")))?;
                                    // replace the original by its keyed form
                                    let dest = dir.path().join(exported.path.file_name().unwrap());
                                    std::fs::copy(&exported.path, &dest).map_err(|e| ("io".to_string(), format!("{e}")))?;
                                    std::fs::remove_file(&s.path).ok();
                                    mgr = rt
                                        .block_on(ShardFileManager::new_in_session_directory(dir.path()))
                                        .map_err(|e| ("manager-open".to_string(), format!("{e}")))?;
                                }
                            },
                        }
                        ops_done.push(opname.to_string());
                        for _ in 0..(nq / steps).max(10) {
                            let (q, kind) = qg.gen(&mut rng, &truth);
                            let a = rt.block_on(mgr.chunk_hash_dedup_query(&q)).map_err(|e| format!("{e}"));
                            ok &= record(&q, kind, a, rep, &ops_done.join(","));
                        }
                    }
                    for o in ops_done {
                        rep.count(P, &format!("manager_op_{o}"), 1);
                    }
                },
            }
            Ok(())
        });
        match res {
            Ok(Ok(())) => {},
            Ok(Err((sig, msg))) => {
                // harness-side operation failed (not an answer): inconclusive for this case
                rep.inconclusive(P, &format!("{sig}: {msg}"));
                continue;
            },
            Err(pn) => {
                rep.violation(P, "dedup-panic", &pn, w(&pn, "?"));
                ok = false;
            },
        }
        rep.count(P, "hits", hits);
        rep.count(P, "partial_hits", partial);
        rep.count(P, "collision_resolved_hits", coll);
        rep.count(P, "misses", misses);
        let sig = format!("L{layer}|x{}|{:?}|g{}|dup{}|big{}|h{}p{}c{}", bk(model.cas.len()), p.chunk_space, p.max_group_chunks, p.dup_chunks as u8, big_offsets as u8, (hits > 0) as u8, (partial > 0) as u8, (coll > 0) as u8);
        rep.case(P, if ok && hits > 0 { Some(sig) } else { None });
        if rep.wants_sample(P) && ok {
            let mut s = w("sample", "-");
            s["hits"] = json!(hits);
            s["partial_hits"] = json!(partial);
            s["collision_resolved_hits"] = json!(coll);
            s["misses"] = json!(misses);
            rep.sample(P, s);
        }
    }
}

// ------------------------------------------------------------------------------------------
// C10

static UNION_SIZE_MISMATCH: std::sync::atomic::AtomicU64 = std::sync::atomic::AtomicU64::new(0);
fn rep_note_union_size_mismatch() {
    UNION_SIZE_MISMATCH.fetch_add(1, std::sync::atomic::Ordering::Relaxed);
}

/// universe of "full" records; shards take subsets with flag subsets
struct Universe {
    files: Vec<MDBFileInfo>,
    cas: Vec<MDBCASInfo>,
}

fn gen_universe(rng: &mut Rng, nf: usize, nc: usize) -> Universe {
    let p = GenParams {
        n_cas: nc,
        max_chunks_per_cas: *rng.pick(&[3usize, 30, 200]),
        n_files: nf,
        cas_space: *rng.pick(&[KeySpace::Uniform, KeySpace::Collisions, KeySpace::Extremes]),
        chunk_space: *rng.pick(&[KeySpace::Uniform, KeySpace::Collisions]),
        file_space: *rng.pick(&[KeySpace::Uniform, KeySpace::Collisions, KeySpace::Extremes]),
        max_group_keys: rng.urange(2, 7),
        max_group_chunks: 5,
        dup_chunks: rng.chance(1, 2),
        flags: Some((true, true)),
    };
    let m = gen_model(rng, &p);
    Universe {
        files: m.files.into_values().collect(),
        cas: m.cas.into_values().collect(),
    }
}

fn strip(f: &MDBFileInfo, keep_ver: bool, keep_meta: bool) -> MDBFileInfo {
    let mut g = f.clone();
    if !keep_ver {
        g.verification.clear();
        g.metadata.file_flags &= !mdb_shard::file_structs::MDB_FILE_FLAG_WITH_VERIFICATION;
    }
    if !keep_meta {
        g.metadata_ext = None;
        g.metadata.file_flags &= !mdb_shard::file_structs::MDB_FILE_FLAG_WITH_METADATA_EXT;
    }
    g
}

fn subset(rng: &mut Rng, u: &Universe, frac_num: u64) -> Model {
    let mut m = Model::default();
    for f in &u.files {
        if rng.chance(frac_num, 4) {
            let g = strip(f, rng.chance(1, 2), rng.chance(1, 2));
            m.files.insert(g.metadata.file_hash, g);
        }
    }
    for c in &u.cas {
        if rng.chance(frac_num, 4) {
            m.cas.insert(c.metadata.cas_hash, c.clone());
        }
    }
    m
}

fn model_union(a: &Model, b: &Model, u: &Universe) -> Model {
    let mut m = a.clone();
    for (k, c) in &b.cas {
        m.cas.entry(*k).or_insert_with(|| c.clone());
    }
    for (k, f) in &b.files {
        match m.files.get(k) {
            None => {
                m.files.insert(*k, f.clone());
            },
            Some(g) => {
                let full = u.files.iter().find(|x| x.metadata.file_hash == *k).unwrap();
                let r = strip(full, g.contains_verification() || f.contains_verification(), g.contains_metadata_ext() || f.contains_metadata_ext());
                m.files.insert(*k, r);
            },
        }
    }
    m
}

fn model_difference(a: &Model, b: &Model) -> Model {
    // records of b not in a
    Model {
        files: b.files.iter().filter(|(k, _)| !a.files.contains_key(*k)).map(|(k, v)| (*k, v.clone())).collect(),
        cas: b.cas.iter().filter(|(k, _)| !a.cas.contains_key(*k)).map(|(k, v)| (*k, v.clone())).collect(),
    }
}

pub fn run_setops(args: &Args, rep: &mut Report) {
    const P: &str = "C10";
    run_setops_inner(args, rep);
    rep.count(P, "observed_union_size_estimate_mismatches_not_claimed", UNION_SIZE_MISMATCH.load(std::sync::atomic::Ordering::Relaxed));
}

fn run_setops_inner(args: &Args, rep: &mut Report) {
    const P: &str = "C10";
    for (k, mut rng) in case_iter(args, 0xC10, 60) {
        let nf = rng.urange(0, 40);
        let nc = rng.urange(0, 20);
        let u = gen_universe(&mut rng, nf, nc);
        let rel = rng.below(5);
        let (a, b) = match rel {
            0 => {
                let a = subset(&mut rng, &u, 2);
                (a.clone(), a)
            },
            1 => (subset(&mut rng, &u, 2), Model::default()),
            2 => (Model::default(), subset(&mut rng, &u, 3)),
            3 => {
                // disjoint halves
                let a = subset(&mut rng, &u, 2);
                let mut b = subset(&mut rng, &u, 4);
                b.files.retain(|k2, _| !a.files.contains_key(k2));
                b.cas.retain(|k2, _| !a.cas.contains_key(k2));
                (a, b)
            },
            _ => (subset(&mut rng, &u, 3), subset(&mut rng, &u, 3)),
        };
        let common_files = a.files.keys().filter(|k2| b.files.contains_key(*k2)).count();
        let flag_pairs: BTreeSet<(u32, u32)> =
            a.files.iter().filter_map(|(k2, f)| b.files.get(k2).map(|g| (f.metadata.file_flags >> 30, g.metadata.file_flags >> 30))).collect();
        let w = |what: &str| {
            let mut w = witness_base(args, "shard_setops", k);
            w["a"] = json!([a.files.len(), a.cas.len()]);
            w["b"] = json!([b.files.len(), b.cas.len()]);
            w["relation"] = json!(rel);
            w["what"] = json!(what);
            w
        };
        let opts = OracleOpts {
            check_sizes: false,
            readers: false,
            max_lookups: 200,
        };
        let res = xvcommon::catch(|| -> Result<(), Fail> {
            let (ma, mb) = (to_mem(&a), to_mem(&b));
            let (ia, ba) = ser(&ma)?;
            let (ib, bb) = ser(&mb)?;
            let want_u = model_union(&a, &b, &u);
            let want_d = model_difference(&a, &b);
            let tag = |r: Result<u64, Fail>, pre: &str| r.map_err(|(s, m2)| (format!("{pre}-{s}"), format!("{pre}: {m2}")));
            // in-memory forms
            let mu = ma.union(&mb).map_err(|e| ("union-mem-error".to_string(), format!("{e}")))?;
            let (_, bytes_mu) = ser(&mu)?;
            tag(check_shard_against_model(&bytes_mu, &want_u, &mut rng, &OracleOpts { check_sizes: true, readers: false, max_lookups: 200 }), "union-mem")?;
            // (shard_file_size() of a union is not compared: with duplicate chunk hashes the in-memory
            // recalculation counts distinct chunk hashes while serialization writes one lookup entry per
            // chunk; the property's size clause is about shards built from distinct records, see DESIGN.)
            if bytes_mu.len() as u64 != mu.shard_file_size() {
                rep_note_union_size_mismatch();
            }
            let md = ma.difference(&mb).map_err(|e| ("difference-mem-error".to_string(), format!("{e}")))?;
            let (_, bytes_md) = ser(&md)?;
            tag(check_shard_against_model(&bytes_md, &want_d, &mut rng, &OracleOpts { check_sizes: true, readers: false, max_lookups: 200 }), "difference-mem")?;
            // serialized forms
            let mut out_u = Vec::new();
            let iu = shard_set_union(&ia, &mut Cursor::new(&ba), &ib, &mut Cursor::new(&bb), &mut out_u).map_err(|e| ("union-disk-error".to_string(), format!("{e}")))?;
            tag(check_shard_against_model(&out_u, &want_u, &mut rng, &opts), "union-disk")?;
            let reloaded = MDBShardInfo::load_from_reader(&mut Cursor::new(&out_u)).map_err(|e| ("union-disk-reload".to_string(), format!("{e}")))?;
            if reloaded.metadata != iu.metadata {
                return fail("union-disk-footer", "footer returned by shard_set_union differs from the footer written");
            }
            if iu.metadata.footer_offset + 200 != out_u.len() as u64 {
                return fail("union-disk-footer-offset", "footer_offset + footer size != output length");
            }
            // totals of the on-disk union must equal those of the model
            let stored: u64 = want_u.cas.values().map(|c| c.metadata.num_bytes_in_cas as u64).sum();
            let mat: u64 = want_u.files.values().map(|f| f.segments.iter().map(|s| s.unpacked_segment_bytes as u64).sum::<u64>()).sum();
            if iu.stored_bytes() != stored || iu.materialized_bytes() != mat {
                return fail("union-disk-totals", format!("on-disk union totals ({}, {}) != model ({stored}, {mat})", iu.stored_bytes(), iu.materialized_bytes()));
            }
            let mut out_d = Vec::new();
            let id = shard_set_difference(&ia, &mut Cursor::new(&ba), &ib, &mut Cursor::new(&bb), &mut out_d).map_err(|e| ("difference-disk-error".to_string(), format!("{e}")))?;
            tag(check_shard_against_model(&out_d, &want_d, &mut rng, &opts), "difference-disk")?;
            let stored: u64 = want_d.cas.values().map(|c| c.metadata.num_bytes_in_cas as u64).sum();
            let mat: u64 = want_d.files.values().map(|f| f.segments.iter().map(|s| s.unpacked_segment_bytes as u64).sum::<u64>()).sum();
            if id.stored_bytes() != stored || id.materialized_bytes() != mat {
                return fail("difference-disk-totals", "on-disk difference totals differ from model");
            }
            // file forms (every 4th case)
            if k % 4 == 0 {
                let dir = tempfile::tempdir().map_err(|e| ("io".to_string(), format!("{e}")))?;
                let (fa, fb, fo, fd) = (dir.path().join("a.bin"), dir.path().join("b.bin"), dir.path().join("u.bin"), dir.path().join("d.bin"));
                std::fs::write(&fa, &ba).unwrap();
                std::fs::write(&fb, &bb).unwrap();
                let (hu, _) = shard_file_union(&fa, &fb, &fo).map_err(|e| ("union-file-error".to_string(), format!("{e}")))?;
                let got = std::fs::read(&fo).unwrap();
                if hb(&hu) != refs::leaf_hash(&got) {
                    return fail("union-file-hash", "shard_file_union returned a hash that is not the hash of the file written");
                }
                tag(check_shard_against_model(&got, &want_u, &mut rng, &opts), "union-file")?;
                let (hd, _) = shard_file_difference(&fa, &fb, &fd).map_err(|e| ("difference-file-error".to_string(), format!("{e}")))?;
                let got = std::fs::read(&fd).unwrap();
                if hb(&hd) != refs::leaf_hash(&got) {
                    return fail("difference-file-hash", "shard_file_difference returned a wrong hash");
                }
                tag(check_shard_against_model(&got, &want_d, &mut rng, &opts), "difference-file")?;
                let leftovers: Vec<_> = std::fs::read_dir(dir.path()).unwrap().filter_map(|e| e.ok()).map(|e| e.file_name().to_string_lossy().to_string()).filter(|n| n.ends_with("mdb_temp")).collect();
                if !leftovers.is_empty() {
                    return fail("setop-file-temp-left", "temporary file left behind by shard_file_op");
                }
            }
            Ok(())
        });
        match res {
            Ok(Ok(())) => {
                let sig = format!("rel{rel}|cf{}|fp{:?}|a{}b{}", bk(common_files), flag_pairs, bk(a.files.len() + a.cas.len()), bk(b.files.len() + b.cas.len()));
                rep.case(P, if a.files.len() + a.cas.len() + b.files.len() + b.cas.len() >= 2 { Some(sig) } else { None });
                rep.count(P, "setop_pairs", 1);
                rep.count(P, "common_files_merged", common_files as u64);
                for fp in flag_pairs {
                    rep.count(P, &format!("flagpair_{}_{}", fp.0, fp.1), 1);
                }
                if rep.wants_sample(P) {
                    rep.sample(P, w("sample"));
                }
            },
            Ok(Err((sig, msg))) => {
                rep.violation(P, &sig, &msg, w(&msg));
                rep.case(P, None);
            },
            Err(pn) => {
                rep.violation(P, "setop-panic", &pn, w(&pn));
                rep.case(P, None);
            },
        }
    }
}

fn dir_shards(dir: &Path) -> BTreeMap<String, Vec<u8>> {
    let mut m = BTreeMap::new();
    if let Ok(rd) = std::fs::read_dir(dir) {
        for e in rd.flatten() {
            let n = e.file_name().to_string_lossy().to_string();
            if n.ends_with(".mdb") {
                if let Ok(b) = std::fs::read(e.path()) {
                    m.insert(n, b);
                }
            }
        }
    }
    m
}

/// all records retrievable from a set of shard byte strings (by scanning)
fn records_of(shards: &[&Vec<u8>]) -> Result<(BTreeMap<MerkleHash, Vec<MDBFileInfo>>, BTreeMap<MerkleHash, MDBCASInfo>), Fail> {
    let mut files: BTreeMap<MerkleHash, Vec<MDBFileInfo>> = BTreeMap::new();
    let mut cas = BTreeMap::new();
    for b in shards {
        let mut rd = Cursor::new(b.as_slice());
        let info = MDBShardInfo::load_from_reader(&mut rd).map_err(|e| ("consolidate-unreadable-shard".to_string(), format!("{e}")))?;
        for f in info.read_all_file_info_sections(&mut rd).map_err(|e| ("consolidate-unreadable-shard".to_string(), format!("{e}")))? {
            files.entry(f.metadata.file_hash).or_default().push(f);
        }
        for c in info.read_all_cas_blocks_full(&mut rd).map_err(|e| ("consolidate-unreadable-shard".to_string(), format!("{e}")))? {
            cas.insert(c.metadata.cas_hash, c);
        }
    }
    Ok((files, cas))
}

pub fn run_consolidate(args: &Args, rep: &mut Report) {
    const P: &str = "C10";
    for (k, mut rng) in case_iter(args, 0xC0A, 30) {
        let nf = rng.urange(0, 60);
        let nc = rng.urange(0, 30);
        let u = gen_universe(&mut rng, nf, nc);
        let n_shards = match rng.below(6) {
            0 => 0,
            1 => 1,
            _ => rng.urange(2, 40),
        };
        let dir = tempfile::tempdir().unwrap();
        let mut models = Vec::new();
        let mut n_reexported = 0u64;
        for i in 0..n_shards {
            let m = match rng.below(8) {
                0 => Model::default(),
                1 if !models.is_empty() => {
                    let m: &Model = rng.pick(&models);
                    m.clone()
                },
                _ => {
                    let fr = rng.range(1, 3);
                    subset(&mut rng, &u, fr)
                },
            };
            let Ok(written) = write_model_shard(dir.path(), &m) else {
                continue;
            };
            // some shards are present in a re-exported form instead (unkeyed, finite validity, file records and lookup
            // tables optional - the compact variants every reader accepts); the records to preserve are whatever the
            // directory holds before consolidation
            if rng.chance(1, 3) {
                if let Ok(sf) = MDBShardFile::load_from_file(&written) {
                    let exported = sf.export_as_keyed_shard(dir.path(), MerkleHash::default(), Duration::from_secs(100_000), rng.chance(1, 2), rng.chance(1, 3), rng.chance(1, 3));
                    if let Ok(e) = exported {
                        if e.path != written && rng.chance(2, 3) {
                            let _ = std::fs::remove_file(&written);
                        }
                        n_reexported += 1;
                    }
                }
            }
            let _ = i;
            models.push(m);
        }
        // a leftover temp file and a foreign file must be ignored
        if rng.chance(1, 3) {
            std::fs::write(dir.path().join(".deadbeef.mdb_temp"), b"partial").unwrap();
            std::fs::write(dir.path().join("README.txt"), b"hello").unwrap();
        }
        let before = dir_shards(dir.path());
        let sizes: Vec<u64> = before.values().map(|b| b.len() as u64).collect();
        let total: u64 = sizes.iter().sum();
        let maxs = sizes.iter().max().copied().unwrap_or(0);
        let target = match rng.below(5) {
            0 => 1,
            1 => maxs + 1,
            2 => total + 1000,
            3 => maxs * 2 + 10,
            _ => rng.range(1, total + 1000),
        };
        let w = |what: &str| {
            let mut w = witness_base(args, "shard_consolidate", k);
            w["shards_before"] = json!(before.len());
            w["target"] = json!(target);
            w["what"] = json!(what);
            w
        };
        let res = xvcommon::catch(|| -> Result<(usize, usize), Fail> {
            let before_refs: Vec<&Vec<u8>> = before.values().collect();
            let (bf, bc) = records_of(&before_refs)?;
            let ret = consolidate_shards_in_directory(dir.path(), target).map_err(|e| ("consolidate-error".to_string(), format!("{e}")))?;
            let after = dir_shards(dir.path());
            let mut ret_bytes: Vec<Vec<u8>> = Vec::new();
            for s in &ret {
                let Ok(b) = std::fs::read(&s.path) else {
                    return fail("consolidate-returned-missing", format!("returned shard {:?} does not exist", s.path));
                };
                let name = s.path.file_name().unwrap().to_string_lossy().to_string();
                let h = mh(&refs::leaf_hash(&b));
                if name != format!("{}.mdb", h.hex()) || s.shard_hash != h {
                    return fail("consolidate-name-hash", "returned shard's name / hash is not the hash of its contents");
                }
                ret_bytes.push(b);
            }
            let ret_refs: Vec<&Vec<u8>> = ret_bytes.iter().collect();
            let (af, ac) = records_of(&ret_refs)?;
            // nothing lost
            for (h, variants) in &bf {
                let Some(av) = af.get(h) else {
                    return fail("consolidate-lost-file", "a file record retrievable before is in no returned shard");
                };
                // the richest information must survive: flags of the union
                let want_flags = variants.iter().fold(0u32, |x, f| x | f.metadata.file_flags);
                let got_flags = av.iter().fold(0u32, |x, f| x | f.metadata.file_flags);
                if want_flags & !got_flags != 0 {
                    return fail("consolidate-lost-file-info", "verification / metadata of a file record was lost");
                }
                for f in av {
                    if f.segments != variants[0].segments {
                        return fail("consolidate-file-changed", "file record segments changed");
                    }
                }
            }
            for (h, c) in &bc {
                match ac.get(h) {
                    Some(c2) if c2 == c => {},
                    Some(_) => return fail("consolidate-cas-changed", "xorb record changed"),
                    None => return fail("consolidate-lost-cas", "a xorb record retrievable before is in no returned shard"),
                }
            }
            // nothing invented
            if af.keys().any(|h| !bf.contains_key(h)) || ac.keys().any(|h| !bc.contains_key(h)) {
                return fail("consolidate-invented", "a record appeared that was in no input shard");
            }
            // every returned shard answers lookups for its own records
            for b in &ret_bytes {
                let mut rd = Cursor::new(b.as_slice());
                let info = MDBShardInfo::load_from_reader(&mut rd).unwrap();
                for f in info.read_all_file_info_sections(&mut rd).unwrap().iter().take(20) {
                    match info.get_file_reconstruction_info(&mut rd, &f.metadata.file_hash) {
                        Ok(Some(g)) if g == *f => {},
                        _ => return fail("consolidate-lookup-broken", "merged shard does not answer a lookup for its own record"),
                    }
                }
            }
            // deleted shards: their records must be in the returned set (implied above), and files that
            // still exist but were not returned must be untouched
            for (n, b) in &after {
                if let Some(old) = before.get(n) {
                    if old != b {
                        return fail("consolidate-modified-in-place", "an existing shard file was modified in place");
                    }
                }
            }
            Ok((before.len(), ret.len()))
        });
        match res {
            Ok(Ok((nb, na))) => {
                rep.count(P, "consolidations", 1);
                rep.count(P, "consolidation_inputs_in_reexported_form", n_reexported);
                if na < nb {
                    rep.count(P, "consolidations_that_merged", 1);
                }
                let sig = format!("cons|b{}|a{}|t{}", bk(nb), bk(na), if target == 1 { 0 } else if target > total { 2 } else { 1 });
                rep.case(P, if nb >= 2 { Some(sig) } else { None });
                if rep.wants_sample(P) && nb >= 2 {
                    let mut s = w("sample");
                    s["shards_after"] = json!(na);
                    rep.sample(P, s);
                }
            },
            Ok(Err((sig, msg))) => {
                rep.violation(P, &sig, &msg, w(&msg));
                rep.case(P, None);
            },
            Err(pn) => {
                rep.violation(P, "consolidate-panic", &pn, w(&pn));
                rep.case(P, None);
            },
        }
    }
}

// ------------------------------------------------------------------------------------------
// C18

fn contains_subslice(hay: &[u8], needle: &[u8]) -> bool {
    hay.windows(needle.len()).any(|w| w == needle)
}

pub fn run_keyed(args: &Args, rep: &mut Report) {
    const P: &str = "C18";
    let rt = rt();
    for (k, mut rng) in case_iter(args, 0xC18, 40) {
        if k % 8 == 5 {
            let res = xvcommon::catch(|| keyed_collision_case(&mut rng, &rt));
            let w = |what: &str| {
                let mut w = witness_base(args, "shard_keyed", k);
                w["mode"] = json!("keyed shard next to an unkeyed shard with same-prefix chunk hashes");
                w["what"] = json!(what);
                w
            };
            match res {
                Ok(Ok((hits, twins))) => {
                    rep.count(P, "keyed_collision_directories", (twins > 0) as u64);
                    rep.count(P, "keyed_collision_hits", hits);
                    rep.case(P, if twins > 0 { Some(format!("collision|t{}|h{}", twins.min(8), (hits > 0) as u8)) } else { None });
                },
                Ok(Err((sig, msg))) => {
                    rep.violation(P, &sig, &msg, w(&msg));
                    rep.case(P, None);
                },
                Err(pn) => {
                    rep.violation(P, "keyed-collision-panic", &pn, w(&pn));
                    rep.case(P, None);
                },
            }
            continue;
        }
        if k % 4 == 3 {
            let res = xvcommon::catch(|| keyed_mixture_case(&mut rng, &rt));
            let w = |what: &str| {
                let mut w = witness_base(args, "shard_keyed", k);
                w["mode"] = json!("mixture of keys in one directory");
                w["what"] = json!(what);
                w
            };
            match res {
                Ok(Ok((hits, nk))) => {
                    rep.count(P, "keyed_mixture_directories", 1);
                    rep.count(P, "keyed_mixture_hits_identical", hits);
                    rep.case(P, Some(format!("mixture|k{nk}|h{}", (hits > 0) as u8)));
                },
                Ok(Err((sig, msg))) => {
                    rep.violation(P, &sig, &msg, w(&msg));
                    rep.case(P, None);
                },
                Err(pn) => {
                    rep.violation(P, "keyed-mixture-panic", &pn, w(&pn));
                    rep.case(P, None);
                },
            }
            continue;
        }
        let unique = k % 2 == 0; // unique chunk hashes => answers are unique => exact comparison
        let p = GenParams {
            n_cas: rng.urange(1, 12),
            max_chunks_per_cas: *rng.pick(&[5usize, 50, 400]),
            n_files: rng.urange(0, 12),
            cas_space: KeySpace::Uniform,
            chunk_space: if unique { KeySpace::Uniform } else { KeySpace::Collisions },
            file_space: KeySpace::Uniform,
            max_group_keys: 3,
            max_group_chunks: 6,
            dup_chunks: !unique,
            flags: None,
        };
        let model = gen_model(&mut rng, &p);
        let truth = truth_of(&model);
        let qg = QueryGen::new(&truth);
        let zero_key = rng.chance(1, 6);
        let key = if zero_key { MerkleHash::default() } else { rand_hash(&mut rng) };
        let flags = (rng.chance(1, 2), rng.chance(1, 2), rng.chance(1, 2));
        let w = |what: &str| {
            let mut w = witness_base(args, "shard_keyed", k);
            w["flags"] = json!([flags.0, flags.1, flags.2]);
            w["zero_key"] = json!(zero_key);
            w["xorbs"] = json!(model.cas.len());
            w["what"] = json!(what);
            w
        };
        let res = xvcommon::catch(|| -> Result<(u64, u64), Fail> {
            let src = tempfile::tempdir().unwrap();
            let dst = tempfile::tempdir().unwrap();
            let pth = write_model_shard(src.path(), &model)?;
            let sf = MDBShardFile::load_from_file(&pth).map_err(|e| ("load".to_string(), format!("{e}")))?;
            let ex = sf
                .export_as_keyed_shard(dst.path(), key, Duration::from_secs(100_000), flags.0, flags.1, flags.2)
                .map_err(|e| ("keyed-export-error".to_string(), format!("export_as_keyed_shard: {e}")))?;
            let bytes = std::fs::read(&ex.path).map_err(|e| ("io".to_string(), format!("{e}")))?;
            if ex.path.file_name().unwrap().to_string_lossy() != format!("{}.mdb", mh(&refs::leaf_hash(&bytes)).hex()) {
                return fail("keyed-name-hash", "exported shard's name is not the hash of its contents");
            }
            let mut rd = Cursor::new(&bytes);
            let info = MDBShardInfo::load_from_reader(&mut rd).map_err(|e| ("keyed-load".to_string(), format!("{e}")))?;
            if info.metadata.chunk_hash_hmac_key != key {
                return fail("keyed-footer-key", "exported footer does not carry the key");
            }
            // chunk lists: every chunk hash replaced by its keyed form; xorb hashes kept
            let cas = info.read_all_cas_blocks_full(&mut rd).map_err(|e| ("keyed-scan".to_string(), format!("{e}")))?;
            if cas.len() != model.cas.len() {
                return fail("keyed-cas-count", "exported shard has a different number of xorbs");
            }
            for (c, orig) in cas.iter().zip(model.cas.values()) {
                if c.metadata.cas_hash != orig.metadata.cas_hash || c.metadata.num_entries != orig.metadata.num_entries || c.metadata.num_bytes_in_cas != orig.metadata.num_bytes_in_cas {
                    return fail("keyed-xorb-changed", "xorb header changed by keyed export");
                }
                for (x, o) in c.chunks.iter().zip(orig.chunks.iter()) {
                    let want = if zero_key { hb(&o.chunk_hash) } else { refs::hmac(&hb(&o.chunk_hash), &hb(&key)) };
                    if hb(&x.chunk_hash) != want {
                        return fail("keyed-chunk-not-hmac", "chunk entry is not hmac(key, original hash)");
                    }
                    if x.unpacked_segment_bytes != o.unpacked_segment_bytes || x.chunk_byte_range_start != o.chunk_byte_range_start {
                        return fail("keyed-chunk-fields", "chunk length / offset changed by keyed export");
                    }
                }
            }
            // no original chunk hash survives anywhere in the file (full or truncated in the lookup table)
            if !zero_key {
                let mut n = 0;
                for c in model.cas.values() {
                    for x in c.chunks.iter() {
                        if n < 300 || rng.chance(1, 20) {
                            if contains_subslice(&bytes, x.chunk_hash.as_bytes()) {
                                return fail("keyed-plain-hash-present", "an original chunk hash is present in the keyed shard");
                            }
                            n += 1;
                        }
                    }
                }
            }
            // lookup tables present / absent as requested, and built from keyed hashes
            let n_chunks: u64 = model.cas.values().map(|c| c.chunks.len() as u64).sum();
            if flags.2 {
                if info.metadata.chunk_lookup_num_entry != n_chunks {
                    return fail("keyed-chunk-lookup-count", "chunk lookup table entry count wrong");
                }
                let t = info.read_all_truncated_hashes(&mut rd).map_err(|e| ("keyed-scan".to_string(), format!("{e}")))?;
                let mut got: Vec<u64> = t.iter().map(|x| x.0).collect();
                let mut want: Vec<u64> = cas.iter().flat_map(|c| c.chunks.iter().map(|x| x.chunk_hash[0])).collect();
                got.sort();
                want.sort();
                if got != want {
                    return fail("keyed-chunk-lookup-keys", "chunk lookup table keys are not the truncated keyed hashes");
                }
                if t.windows(2).any(|w2| w2[0].0 > w2[1].0) {
                    return fail("keyed-chunk-lookup-unsorted", "chunk lookup table of keyed shard is not sorted");
                }
            } else if info.metadata.chunk_lookup_num_entry != 0 {
                return fail("keyed-chunk-lookup-present", "chunk lookup table present although not requested");
            }
            if flags.1 {
                if info.metadata.cas_lookup_num_entry != model.cas.len() as u64 {
                    return fail("keyed-cas-lookup-count", "cas lookup table entry count wrong");
                }
            } else if info.metadata.cas_lookup_num_entry != 0 {
                return fail("keyed-cas-lookup-present", "cas lookup table present although not requested");
            }
            // file records kept or dropped as requested
            let files = info.read_all_file_info_sections(&mut rd).map_err(|e| ("keyed-scan".to_string(), format!("{e}")))?;
            if flags.0 {
                let want: Vec<&MDBFileInfo> = model.files.values().collect();
                if files.len() != want.len() || files.iter().zip(want.iter()).any(|(a, b)| a != *b) {
                    return fail("keyed-files-changed", "file records changed by keyed export");
                }
                for h in model.files.keys().take(30) {
                    match info.get_file_reconstruction_info(&mut rd, h) {
                        Ok(Some(f)) if f == model.files[h] => {},
                        _ => return fail("keyed-file-lookup", "file lookup in keyed shard fails"),
                    }
                }
            } else if !files.is_empty() || info.metadata.file_lookup_num_entry != 0 {
                return fail("keyed-files-present", "file records present although not requested");
            }
            // expiry was set
            let now = std::time::SystemTime::now().duration_since(std::time::UNIX_EPOCH).unwrap().as_secs();
            if info.metadata.shard_key_expiry < now + 100_000 - 30 || info.metadata.shard_key_expiry > now + 100_000 + 30 {
                return fail("keyed-expiry", "exported shard's expiry is not now + validity");
            }
            // dedup through managers: original directory vs keyed directory, unkeyed queries
            let m_orig = rt.block_on(ShardFileManager::new_in_session_directory(src.path())).map_err(|e| ("manager-open".to_string(), format!("{e}")))?;
            let m_keyed = rt.block_on(ShardFileManager::new_in_session_directory(dst.path())).map_err(|e| ("manager-open".to_string(), format!("{e}")))?;
            let mut hits = 0u64;
            let mut same = 0u64;
            for _ in 0..120 {
                let (q, _kind) = qg.gen(&mut rng, &truth);
                let a0 = rt.block_on(m_orig.chunk_hash_dedup_query(&q)).map_err(|e| ("keyed-query-error".to_string(), format!("{e}")))?;
                let a1 = rt.block_on(m_keyed.chunk_hash_dedup_query(&q)).map_err(|e| ("keyed-query-error".to_string(), format!("{e}")))?;
                let t0 = check_answer(&truth, &q, &a0).map_err(|(s, m2)| (format!("orig-{s}"), m2))?;
                let t1 = check_answer(&truth, &q, &a1).map_err(|(s, m2)| (format!("keyed-{s}"), m2))?;
                if t1 {
                    hits += 1;
                }
                if unique {
                    if a0 != a1 {
                        return fail("keyed-dedup-differs", format!("manager over keyed shard answers differently from the original (orig hit={t0}, keyed hit={t1})"));
                    }
                    same += 1;
                } else if t0 != t1 && !qg.collides(&q[0]) {
                    return fail("keyed-dedup-differs", "hit/miss status differs between original and keyed shard for a non-colliding query");
                }
            }
            Ok((hits, same))
        });
        match res {
            Ok(Ok((hits, same))) => {
                rep.count(P, "keyed_exports", 1);
                rep.count(P, "keyed_dedup_hits", hits);
                rep.count(P, "keyed_answers_identical", same);
                rep.count(P, &format!("flags_{}{}{}", flags.0 as u8, flags.1 as u8, flags.2 as u8), 1);
                if zero_key {
                    rep.count(P, "zero_key_exports", 1);
                }
                rep.case(P, Some(format!("keyed|f{}{}{}|z{}|u{}|x{}", flags.0 as u8, flags.1 as u8, flags.2 as u8, zero_key as u8, unique as u8, bk(model.cas.len()))));
                if rep.wants_sample(P) {
                    rep.sample(P, w("sample"));
                }
            },
            Ok(Err((sig, msg))) => {
                rep.violation(P, &sig, &msg, w(&msg));
                rep.case(P, None);
            },
            Err(pn) => {
                rep.violation(P, "keyed-panic", &pn, w(&pn));
                rep.case(P, None);
            },
        }
    }
}

/// C18: several shards under several keys (and unkeyed ones) in ONE directory; a manager over the mixture
/// must answer unkeyed queries exactly like a manager over the original shards
fn keyed_mixture_case(rng: &mut Rng, rt: &tokio::runtime::Runtime) -> Result<(u64, u64), Fail> {
    let src = tempfile::tempdir().unwrap();
    let mix = tempfile::tempdir().unwrap();
    let n_shards = rng.urange(3, 7);
    let keys: Vec<Option<MerkleHash>> = vec![None, Some(rand_hash(rng)), Some(rand_hash(rng)), Some(rand_hash(rng))];
    let mut truth: Truth = HashMap::new();
    let mut n_keys_used = std::collections::HashSet::new();
    for _ in 0..n_shards {
        let p = GenParams {
            n_cas: rng.urange(1, 6),
            max_chunks_per_cas: *rng.pick(&[5usize, 40]),
            n_files: rng.urange(0, 4),
            cas_space: KeySpace::Uniform,
            chunk_space: KeySpace::Uniform,
            file_space: KeySpace::Uniform,
            max_group_keys: 2,
            max_group_chunks: 2,
            dup_chunks: false,
            flags: None,
        };
        let model = gen_model(rng, &p);
        if model.cas.is_empty() {
            continue;
        }
        truth.extend(truth_of(&model));
        let pth = write_model_shard(src.path(), &model)?;
        let sf = MDBShardFile::load_from_file(&pth).map_err(|e| ("load".to_string(), format!("{e}")))?;
        let ki = rng.usize_below(keys.len());
        n_keys_used.insert(ki);
        match keys[ki] {
            None => {
                std::fs::copy(&pth, mix.path().join(pth.file_name().unwrap())).map_err(|e| ("io".to_string(), format!("{e}")))?;
            },
            Some(k) => {
                sf.export_as_keyed_shard(mix.path(), k, Duration::from_secs(100_000), rng.chance(1, 2), rng.chance(1, 2), rng.chance(1, 2))
                    .map_err(|e| ("keyed-export-error".to_string(), format!("{e}")))?;
            },
        }
    }
    if truth.is_empty() {
        return Ok((0, 0));
    }
    let qg = QueryGen::new(&truth);
    let m_orig = rt.block_on(ShardFileManager::new_in_session_directory(src.path())).map_err(|e| ("manager-open".to_string(), format!("{e}")))?;
    let m_mix = rt.block_on(ShardFileManager::new_in_session_directory(mix.path())).map_err(|e| ("manager-open".to_string(), format!("{e}")))?;
    let mut hits = 0u64;
    for _ in 0..150 {
        let (q, _) = qg.gen(rng, &truth);
        let a0 = rt.block_on(m_orig.chunk_hash_dedup_query(&q)).map_err(|e| ("keyed-query-error".to_string(), format!("{e}")))?;
        let a1 = rt.block_on(m_mix.chunk_hash_dedup_query(&q)).map_err(|e| ("keyed-query-error".to_string(), format!("{e}")))?;
        check_answer(&truth, &q, &a0).map_err(|(s, m2)| (format!("orig-{s}"), m2))?;
        if check_answer(&truth, &q, &a1).map_err(|(s, m2)| (format!("keyed-mixture-{s}"), m2))? {
            hits += 1;
        }
        if a0 != a1 {
            return fail("keyed-mixture-dedup-differs", format!("manager over a directory mixing {} keys answers differently from the manager over the original shards (orig hit={}, mixture hit={})", n_keys_used.len(), a0.is_some(), a1.is_some()));
        }
    }
    Ok((hits, n_keys_used.len() as u64))
}

/// A keyed shard next to an unkeyed shard that holds a *different* chunk with the same leading 64 bits as a chunk of
/// the keyed one: the unkeyed collection (always consulted first) produces an index candidate that the on-disk check
/// rejects; the query must go on to the keyed collection.  Oracle: whatever a manager over the keyed shard's
/// original alone answers with a hit, the mixture must answer with a hit too, and truthfully.
fn keyed_collision_case(rng: &mut Rng, rt: &tokio::runtime::Runtime) -> Result<(u64, u64), Fail> {
    let solo = tempfile::tempdir().unwrap();
    let scratch = tempfile::tempdir().unwrap();
    let mix = tempfile::tempdir().unwrap();
    let gp = |rng: &mut Rng| GenParams {
        n_cas: rng.urange(1, 4),
        max_chunks_per_cas: *rng.pick(&[3usize, 12, 40]),
        n_files: rng.urange(0, 2),
        cas_space: KeySpace::Uniform,
        chunk_space: KeySpace::Uniform,
        file_space: KeySpace::Uniform,
        max_group_keys: 2,
        max_group_chunks: 2,
        dup_chunks: false,
        flags: None,
    };
    let p1 = gp(rng);
    let m1 = gen_model(rng, &p1);
    if m1.cas.is_empty() {
        return Ok((0, 0));
    }
    let mut truth = truth_of(&m1);
    let t1 = truth.clone();
    // the unkeyed neighbour: random xorbs in which some chunk hashes are replaced by same-prefix twins of m1's chunks
    let p2 = gp(rng);
    let mut m2 = gen_model(rng, &p2);
    let victims: Vec<MerkleHash> = t1.values().flat_map(|v| v.iter().map(|c| c.0)).collect();
    if victims.is_empty() {
        return Ok((0, 0));
    }
    let mut twins = 0u64;
    for c in m2.cas.values_mut() {
        for ch in c.chunks.iter_mut() {
            if rng.chance(1, 2) {
                let v = victims[rng.usize_below(victims.len())];
                ch.chunk_hash = same_prefix(rng, &v);
                twins += 1;
            }
        }
    }
    if twins == 0 || m2.cas.is_empty() {
        return Ok((0, 0));
    }
    truth.extend(truth_of(&m2));
    let key = rand_hash(rng);
    let p1path = write_model_shard(solo.path(), &m1)?;
    MDBShardFile::load_from_file(&p1path)
        .map_err(|e| ("load".to_string(), format!("{e}")))?
        .export_as_keyed_shard(mix.path(), key, Duration::from_secs(100_000), rng.chance(1, 2), rng.chance(1, 2), rng.chance(1, 2))
        .map_err(|e| ("keyed-export-error".to_string(), format!("{e}")))?;
    let p2path = write_model_shard(scratch.path(), &m2)?;
    std::fs::copy(&p2path, mix.path().join(p2path.file_name().unwrap())).map_err(|e| ("io".to_string(), format!("{e}")))?;
    let m_solo = rt.block_on(ShardFileManager::new_in_session_directory(solo.path())).map_err(|e| ("manager-open".to_string(), format!("{e}")))?;
    let m_mix = rt.block_on(ShardFileManager::new_in_session_directory(mix.path())).map_err(|e| ("manager-open".to_string(), format!("{e}")))?;
    let qg = QueryGen::new(&t1);
    let mut hits = 0u64;
    for _ in 0..120 {
        let (q, _) = qg.gen(rng, &t1);
        let a0 = rt.block_on(m_solo.chunk_hash_dedup_query(&q)).map_err(|e| ("keyed-query-error".to_string(), format!("{e}")))?;
        let a1 = rt.block_on(m_mix.chunk_hash_dedup_query(&q)).map_err(|e| ("keyed-query-error".to_string(), format!("{e}")))?;
        check_answer(&truth, &q, &a1).map_err(|(s, m)| (format!("keyed-collision-{s}"), m))?;
        if a0.is_some() && a1.is_none() {
            return fail(
                "keyed-collision-lost-hit",
                "a chunk of a keyed shard is not found because an unkeyed shard in the same directory holds another chunk with the same leading 64 bits",
            );
        }
        if a1.is_some() {
            hits += 1;
        }
    }
    Ok((hits, twins))
}

/// write a shard whose footer carries the given (creation, expiry); returns its path
fn craft_shard(dir: &Path, model: &Model, creation: u64, expiry: u64, key: Option<MerkleHash>) -> Result<PathBuf, Fail> {
    let (_, mut bytes) = ser(&to_mem(model))?;
    let flen = std::mem::size_of::<MDBShardFileFooter>();
    let fstart = bytes.len() - flen;
    let mut footer = MDBShardFileFooter::deserialize(&mut Cursor::new(&bytes[fstart..])).map_err(|e| ("footer".to_string(), format!("{e}")))?;
    footer.shard_creation_timestamp = creation;
    footer.shard_key_expiry = expiry;
    if let Some(k) = key {
        footer.chunk_hash_hmac_key = k;
    }
    bytes.truncate(fstart);
    footer.serialize(&mut bytes).map_err(|e| ("footer".to_string(), format!("{e}")))?;
    let name = format!("{}.mdb", mh(&refs::leaf_hash(&bytes)).hex());
    let p = dir.join(name);
    std::fs::write(&p, &bytes).map_err(|e| ("io".to_string(), format!("{e}")))?;
    Ok(p)
}

pub fn run_expiry(args: &Args, rep: &mut Report) {
    const P: &str = "C18";
    const MARGIN: u64 = 5;
    let rt = rt();
    for (k, mut rng) in case_iter(args, 0xE18, 30) {
        let dir = tempfile::tempdir().unwrap();
        let now = std::time::SystemTime::now().duration_since(std::time::UNIX_EPOCH).unwrap().as_secs();
        let buffer = *rng.pick(&[0u64, 1, 100, 3600, 7 * 24 * 3600, u64::MAX / 2, u64::MAX]);
        let n = rng.urange(1, 10);
        // (path, expiry)
        let mut shards: Vec<(PathBuf, u64)> = Vec::new();
        let mut first_chunks: Vec<MerkleHash> = Vec::new();
        for _ in 0..n {
            let p = GenParams {
                n_cas: rng.urange(1, 3),
                max_chunks_per_cas: 5,
                n_files: rng.urange(0, 2),
                cas_space: KeySpace::Uniform,
                chunk_space: KeySpace::Uniform,
                file_space: KeySpace::Uniform,
                max_group_keys: 2,
                max_group_chunks: 2,
                dup_chunks: false,
                flags: None,
            };
            let m = gen_model(&mut rng, &p);
            let expiry = match rng.below(9) {
                0 => u64::MAX,
                1 => 0,
                2 => now.saturating_sub(rng.range(MARGIN + 1, 100)),
                3 => now + rng.range(MARGIN + 1, 100),
                4 => now.saturating_sub(buffer.min(now)).saturating_sub(rng.range(MARGIN + 1, 50)),
                5 => now.saturating_sub(buffer.min(now)) + rng.range(MARGIN + 1, 50),
                6 => now.saturating_sub(rng.range(1000, 10_000_000)),
                7 => now + rng.range(1000, 10_000_000),
                _ => u64::MAX - rng.range(0, 3),
            };
            let creation = match rng.below(3) {
                0 => 0,
                1 => now.saturating_sub(rng.range(0, 1_000_000)),
                _ => now + 100,
            };
            let key = if rng.chance(1, 2) { Some(rand_hash(&mut rng)) } else { None };
            match craft_shard(dir.path(), &m, creation, expiry, key) {
                Ok(p2) => {
                    if key.is_none() {
                        first_chunks.extend(m.cas.values().filter_map(|c| c.chunks.first().map(|x| x.chunk_hash)));
                    }
                    shards.push((p2, expiry))
                },
                Err(_) => continue,
            }
        }
        let w = |what: &str| {
            let mut w = witness_base(args, "shard_expiry", k);
            w["buffer"] = json!(buffer);
            w["n"] = json!(shards.len());
            w["what"] = json!(what);
            w
        };
        let res = xvcommon::catch(|| -> Result<(u64, u64, u64), Fail> {
            let loaded = MDBShardFile::load_all_valid(dir.path()).map_err(|e| ("expiry-load-error".to_string(), format!("{e}")))?;
            let loaded_paths: BTreeSet<PathBuf> = loaded.iter().map(|s| s.path.clone()).collect();
            let mgr = rt.block_on(ShardFileManager::new_in_session_directory(dir.path())).map_err(|e| ("manager-open".to_string(), format!("{e}")))?;
            let reg: BTreeSet<PathBuf> = rt.block_on(mgr.registered_shard_list()).map_err(|e| ("manager-list".to_string(), format!("{e}")))?.iter().map(|s| s.path.clone()).collect();
            let (mut n_exp, mut n_valid, mut n_del) = (0u64, 0u64, 0u64);
            for (p2, expiry) in &shards {
                let p2 = std::path::absolute(p2).unwrap();
                if expiry.saturating_add(MARGIN) < now {
                    n_exp += 1;
                    if loaded_paths.contains(&p2) || reg.contains(&p2) {
                        return fail("expiry-loaded-expired", format!("a shard expired {}s ago was loaded (load_all_valid={}, manager={})", now - expiry, loaded_paths.contains(&p2), reg.contains(&p2)));
                    }
                }
                if *expiry > now + MARGIN {
                    n_valid += 1;
                    if !loaded_paths.contains(&p2) || !reg.contains(&p2) {
                        return fail("expiry-valid-not-loaded", "a shard that is not expired was not loaded");
                    }
                }
            }
            // the other way in: shards handed to a manager one by one, by file path (downloaded global-dedup shards arrive so)
            let other = tempfile::tempdir().unwrap();
            let mgr2 = rt.block_on(ShardFileManager::new_in_session_directory(other.path())).map_err(|e| ("manager-open".to_string(), format!("{e}")))?;
            for (p2, _) in &shards {
                rt.block_on(mgr2.register_shards_by_path(&[p2.clone()])).map_err(|e| ("expiry-register-error".to_string(), format!("{e}")))?;
            }
            let reg2: BTreeSet<PathBuf> = rt.block_on(mgr2.registered_shard_list()).map_err(|e| ("manager-list".to_string(), format!("{e}")))?.iter().map(|s| std::path::absolute(&s.path).unwrap()).collect();
            for (p2, expiry) in &shards {
                let p2 = std::path::absolute(p2).unwrap();
                if expiry.saturating_add(MARGIN) < now && reg2.contains(&p2) {
                    return fail("expiry-loaded-expired-by-path", format!("a shard expired {}s ago was registered when handed over by file path", now - expiry));
                }
                if *expiry > now + MARGIN && !reg2.contains(&p2) {
                    return fail("expiry-valid-not-loaded", "a shard that is not expired was not registered when handed over by file path");
                }
            }
            MDBShardFile::clean_expired_shards(dir.path(), buffer).map_err(|e| ("expiry-clean-error".to_string(), format!("{e}")))?;
            // one case in fifteen lets time pass: a shard valid for one more second is registered by the live manager, expires,
            // is removed by the cleaner (no grace) while the manager still has it registered
            let mut late_chunks: Vec<MerkleHash> = Vec::new();
            if k % 15 == 7 {
                let now2 = std::time::SystemTime::now().duration_since(std::time::UNIX_EPOCH).unwrap().as_secs();
                let pl = GenParams { n_cas: 2, max_chunks_per_cas: 5, n_files: 1, cas_space: KeySpace::Uniform, chunk_space: KeySpace::Uniform, file_space: KeySpace::Uniform, max_group_keys: 2, max_group_chunks: 2, dup_chunks: false, flags: None };
                let ml = gen_model(&mut rng, &pl);
                let late_dir = tempfile::tempdir().unwrap();
                if let Ok(pth) = craft_shard(late_dir.path(), &ml, now2, now2 + 1, None) {
                    late_chunks.extend(ml.cas.values().filter_map(|c| c.chunks.first().map(|x| x.chunk_hash)));
                    rt.block_on(mgr.register_shards_by_path(&[pth.clone()])).map_err(|e| ("expiry-register-error".to_string(), format!("{e}")))?;
                    std::thread::sleep(std::time::Duration::from_millis(2200));
                    MDBShardFile::clean_expired_shards(late_dir.path(), 0).map_err(|e| ("expiry-clean-error".to_string(), format!("{e}")))?;
                    if pth.exists() {
                        return fail("expiry-kept-late", "a shard past its expiry (no grace period) was kept by the cleaner");
                    }
                }
            }
            // the manager opened before the cleaner ran still has the removed shards registered: a dedup query that lands in
            // one of them must come back as a miss (or a hit elsewhere), not as an error
            for h in late_chunks.iter().chain(first_chunks.iter()) {
                if let Err(e) = rt.block_on(mgr.chunk_hash_dedup_query(&[*h])) {
                    return fail("expiry-query-error-after-clean", format!("dedup query through a live manager fails after the cleaner removed an expired shard: {e}"));
                }
            }
            for (p2, expiry) in &shards {
                let exists = p2.exists();
                let grace_end = expiry.saturating_add(buffer);
                if grace_end > now + MARGIN && !exists {
                    return fail("expiry-deleted-early", "a shard was deleted before expiry + grace period");
                }
                if grace_end.saturating_add(MARGIN) < now && exists {
                    return fail("expiry-kept-late", "a shard past expiry + grace period was kept");
                }
                if !exists {
                    n_del += 1;
                }
            }
            Ok((n_exp, n_valid, n_del))
        });
        match res {
            Ok(Ok((e, v, d))) => {
                rep.count(P, "expired_shards_checked", e);
                rep.count(P, "valid_shards_checked", v);
                rep.count(P, "shards_deleted_by_clean", d);
                rep.case(P, Some(format!("expiry|b{}|e{}v{}d{}", bk(buffer.min(1 << 40) as usize), (e > 0) as u8, (v > 0) as u8, (d > 0) as u8)));
            },
            Ok(Err((sig, msg))) => {
                rep.violation(P, &sig, &msg, w(&msg));
                rep.case(P, None);
            },
            Err(pn) => {
                rep.violation(P, "expiry-panic", &pn, w(&pn));
                rep.case(P, None);
            },
        }
    }
    let _: Option<Value> = None;
}
