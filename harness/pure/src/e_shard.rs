use xvcommon::{Args, Report};
pub fn run_format(_a: &Args, _r: &mut Report) {}
pub fn run_search(_a: &Args, _r: &mut Report) {}
pub fn run_dedup(_a: &Args, _r: &mut Report) {}
pub fn run_setops(_a: &Args, _r: &mut Report) {}
pub fn run_consolidate(_a: &Args, _r: &mut Report) {}
pub fn run_keyed(_a: &Args, _r: &mut Report) {}
pub fn run_expiry(_a: &Args, _r: &mut Report) {}
