//! One ShardFileManager hit by several tasks at once (adds of xorb / file records that trigger shard
//! cuts, explicit flushes, dedup queries): a conservation monitor.  Every record whose add returned Ok
//! must be in the shards of the directory after the final flush, findable through the manager and
//! through a freshly opened one (C11: everything a session stored reaches its shards; C05: answers
//! given while the state is being flushed are truthful).
use std::collections::{BTreeMap, HashMap};
use std::sync::{Arc, Mutex};

use mdb_shard::cas_structs::MDBCASInfo;
use mdb_shard::file_structs::MDBFileInfo;
use mdb_shard::shard_format::MDBShardInfo;
use mdb_shard::ShardFileManager;
use merklehash::MerkleHash;
use mdb_shard::shard_file_reconstructor::FileReconstructor;
use xvcommon::{case_iter, json, witness_base, Args, Report};

use crate::e_shard::{check_answer, Truth};
use crate::shardgen::{gen_model, GenParams, KeySpace};

#[derive(Clone)]
enum Op {
    Cas(MDBCASInfo),
    File(MDBFileInfo),
    Flush,
    Query(Vec<MerkleHash>),
    Yield,
}

pub fn run(args: &Args, rep: &mut Report) {
    let target = *mdb_shard::constants::MDB_SHARD_MIN_TARGET_SIZE;
    let want: u64 = std::env::var("HF_XET_MDB_SHARD_MIN_TARGET_SIZE").ok().and_then(|s| s.parse().ok()).unwrap_or(64 * 1024 * 1024);
    if target != want {
        for p in ["C11", "C05"] {
            rep.inconclusive(p, "shard target size in effect differs from the environment");
        }
        return;
    }
    for (k, mut rng) in case_iter(args, 0x3C0C, 200) {
        let n_tasks = rng.urange(2, 8);
        let workers = *rng.pick(&[1usize, 2, 4, 8]);
        // one model, its records dealt out to the tasks (unique hashes: a record is added once)
        let p = GenParams {
            n_cas: rng.urange(2, 40),
            max_chunks_per_cas: *rng.pick(&[3usize, 12, 60]),
            n_files: rng.urange(0, 30),
            cas_space: KeySpace::Uniform,
            chunk_space: KeySpace::Uniform,
            file_space: KeySpace::Uniform,
            max_group_keys: 2,
            max_group_chunks: 2,
            dup_chunks: false,
            flags: None,
        };
        let model = gen_model(&mut rng, &p);
        let truth: Truth = model.cas.values().map(|c| (c.metadata.cas_hash, c.chunks.iter().map(|x| (x.chunk_hash, x.unpacked_segment_bytes)).collect())).collect();
        let mut scripts: Vec<Vec<Op>> = vec![Vec::new(); n_tasks];
        let flush_rate = *rng.pick(&[0u64, 1, 3]);
        for c in model.cas.values() {
            let t = rng.usize_below(n_tasks);
            scripts[t].push(Op::Cas(c.clone()));
            if !c.chunks.is_empty() && rng.chance(1, 2) {
                let a = rng.usize_below(c.chunks.len());
                let q: Vec<MerkleHash> = c.chunks[a..].iter().take(rng.urange(1, 4)).map(|x| x.chunk_hash).collect();
                // asked by another task, possibly before the record is added (then a miss) or while it is being flushed
                let t2 = rng.usize_below(n_tasks);
                scripts[t2].push(Op::Query(q));
            }
            if rng.below(10) < flush_rate {
                scripts[rng.usize_below(n_tasks)].push(Op::Flush);
            }
            if rng.chance(1, 4) {
                scripts[rng.usize_below(n_tasks)].push(Op::Yield);
            }
        }
        for f in model.files.values() {
            scripts[rng.usize_below(n_tasks)].push(Op::File(f.clone()));
        }
        for s in scripts.iter_mut() {
            // shuffle each script
            for i in (1..s.len()).rev() {
                let j = rng.usize_below(i + 1);
                s.swap(i, j);
            }
        }
        let dir = tempfile::tempdir().unwrap();
        let w = |what: &str| {
            let mut w = witness_base(args, "shard_mgr_conc", k);
            w["tasks"] = json!(n_tasks);
            w["workers"] = json!(workers);
            w["xorb_records"] = json!(model.cas.len());
            w["file_records"] = json!(model.files.len());
            w["shard_target_size"] = json!(target);
            w["what"] = json!(what);
            w
        };
        let rt = tokio::runtime::Builder::new_multi_thread().worker_threads(workers).enable_all().build().unwrap();
        // (added xorbs, added files, truthfulness failures, query hits, query misses, errors)
        let added_cas: Arc<Mutex<Vec<MerkleHash>>> = Arc::new(Mutex::new(Vec::new()));
        let added_files: Arc<Mutex<Vec<MerkleHash>>> = Arc::new(Mutex::new(Vec::new()));
        let untruthful: Arc<Mutex<Vec<String>>> = Arc::new(Mutex::new(Vec::new()));
        let stats: Arc<Mutex<(u64, u64, u64)>> = Arc::new(Mutex::new((0, 0, 0)));
        let truth_arc = Arc::new(truth.clone());
        let dpath = dir.path().to_path_buf();
        let res = xvcommon::catch(|| {
            rt.block_on(async {
                let mgr = ShardFileManager::new_in_session_directory(&dpath).await.map_err(|e| format!("open: {e}"))?;
                let mut hs = Vec::new();
                for script in scripts.clone() {
                    let mgr = mgr.clone();
                    let (ac, af, ut, st, tr) = (added_cas.clone(), added_files.clone(), untruthful.clone(), stats.clone(), truth_arc.clone());
                    hs.push(tokio::spawn(async move {
                        for op in script {
                            match op {
                                Op::Cas(c) => {
                                    let h = c.metadata.cas_hash;
                                    if mgr.add_cas_block(c).await.is_ok() {
                                        ac.lock().unwrap().push(h);
                                    } else {
                                        st.lock().unwrap().2 += 1;
                                    }
                                },
                                Op::File(f) => {
                                    let h = f.metadata.file_hash;
                                    if mgr.add_file_reconstruction_info(f).await.is_ok() {
                                        af.lock().unwrap().push(h);
                                    } else {
                                        st.lock().unwrap().2 += 1;
                                    }
                                },
                                Op::Flush => {
                                    if mgr.flush().await.is_err() {
                                        st.lock().unwrap().2 += 1;
                                    }
                                },
                                Op::Query(q) => match mgr.chunk_hash_dedup_query(&q).await {
                                    Ok(a) => match check_answer(&tr, &q, &a) {
                                        Ok(true) => st.lock().unwrap().0 += 1,
                                        Ok(false) => st.lock().unwrap().1 += 1,
                                        Err((sig, msg)) => ut.lock().unwrap().push(format!("{sig}: {msg}")),
                                    },
                                    Err(_) => st.lock().unwrap().2 += 1,
                                },
                                Op::Yield => tokio::task::yield_now().await,
                            }
                        }
                    }));
                }
                for h in hs {
                    h.await.map_err(|e| format!("task panicked: {e}"))?;
                }
                mgr.flush().await.map_err(|e| format!("final flush: {e}"))?;
                // through the live manager (the in-memory chunk index is capped: judged only while the history holds less
                // than half the configured cap)
                let mut lost: Vec<String> = Vec::new();
                let index_cap: usize = std::env::var("HF_XET_CHUNK_INDEX_TABLE_MAX_SIZE").ok().and_then(|s| s.parse().ok()).unwrap_or(64 * 1024 * 1024);
                let n_chunks: usize = truth_arc.values().map(|v| v.len()).sum();
                let judge_index = n_chunks * 2 <= index_cap;
                for h in added_cas.lock().unwrap().iter().filter(|_| judge_index) {
                    let chunks = &truth_arc[h];
                    if chunks.is_empty() {
                        continue;
                    }
                    let q = vec![chunks[0].0];
                    match mgr.chunk_hash_dedup_query(&q).await {
                        Ok(Some(_)) => {},
                        Ok(None) => lost.push(format!("live manager: first chunk of xorb {} not found", h.hex())),
                        Err(e) => lost.push(format!("live manager: query error {e}")),
                    }
                }
                for h in added_files.lock().unwrap().iter() {
                    match mgr.get_file_reconstruction_info(h).await {
                        Ok(Some(_)) => {},
                        Ok(None) => lost.push(format!("live manager: file record {} not found", h.hex())),
                        Err(e) => lost.push(format!("live manager: lookup error {e}")),
                    }
                }
                Ok::<Vec<String>, String>(lost)
            })
        });
        rt.shutdown_timeout(std::time::Duration::from_secs(5));
        let lost_live = match res {
            Err(p) => {
                rep.violation("C11", "mgr-conc-panic", &format!("panic under concurrent use of one shard manager: {}", p.lines().next().unwrap_or("")), w(&p));
                rep.case("C11", None);
                continue;
            },
            Ok(Err(e)) => {
                rep.inconclusive("C11", &format!("mgr_conc: {e}"));
                continue;
            },
            Ok(Ok(l)) => l,
        };
        // what the directory holds (independent of the manager's in-memory index)
        let mut disk_cas: HashMap<MerkleHash, MDBCASInfo> = HashMap::new();
        let mut disk_files: BTreeMap<MerkleHash, MDBFileInfo> = BTreeMap::new();
        let mut n_shards = 0;
        let mut parse_problem: Option<String> = None;
        if let Ok(rd) = std::fs::read_dir(dir.path()) {
            for e in rd.flatten() {
                if !e.file_name().to_string_lossy().ends_with(".mdb") {
                    continue;
                }
                let Ok(bytes) = std::fs::read(e.path()) else { continue };
                let mut cur = std::io::Cursor::new(&bytes);
                match MDBShardInfo::load_from_reader(&mut cur) {
                    Ok(info) => {
                        n_shards += 1;
                        match (info.read_all_cas_blocks_full(&mut cur), info.read_all_file_info_sections(&mut cur)) {
                            (Ok(cs), Ok(fs)) => {
                                for c in cs {
                                    disk_cas.insert(c.metadata.cas_hash, c);
                                }
                                for f in fs {
                                    disk_files.insert(f.metadata.file_hash, f);
                                }
                            },
                            _ => parse_problem = Some(format!("shard {:?} sections unreadable", e.file_name())),
                        }
                    },
                    Err(er) => parse_problem = Some(format!("shard {:?} does not parse: {er}", e.file_name())),
                }
            }
        }
        let mut problems: Vec<String> = lost_live;
        if let Some(pp) = parse_problem {
            problems.push(pp);
        }
        for h in added_cas.lock().unwrap().iter() {
            match disk_cas.get(h) {
                Some(c) if *c == model.cas[h] => {},
                Some(_) => problems.push(format!("xorb record {} differs on disk from what was added", h.hex())),
                None => problems.push(format!("xorb record {} (add returned Ok) is in no shard of the directory after the final flush", h.hex())),
            }
        }
        for h in added_files.lock().unwrap().iter() {
            match disk_files.get(h) {
                Some(f) if *f == model.files[h] => {},
                Some(_) => problems.push(format!("file record {} differs on disk from what was added", h.hex())),
                None => problems.push(format!("file record {} (add returned Ok) is in no shard of the directory after the final flush", h.hex())),
            }
        }
        if let Some(pb) = problems.first() {
            rep.violation("C11", "mgr-conc-record-lost", &format!("{} (and {} more)", pb, problems.len() - 1), w(pb));
        }
        let ut = untruthful.lock().unwrap();
        if let Some(u) = ut.first() {
            rep.violation("C05", "mgr-conc-untruthful-answer", &format!("untruthful dedup answer under concurrent adds / flushes: {u}"), w(u));
        }
        let st = stats.lock().unwrap();
        let nrec = added_cas.lock().unwrap().len() + added_files.lock().unwrap().len();
        let sig = format!("mgrconc|t{n_tasks}|w{workers}|sh{}|r{}|fl{flush_rate}", n_shards.min(9), (usize::BITS - nrec.leading_zeros()));
        for p in ["C11", "C05"] {
            rep.case(p, if nrec >= 2 { Some(sig.clone()) } else { None });
        }
        rep.count("C11", "mgr_conc_histories", 1);
        rep.count("C11", "mgr_conc_records_conserved", nrec as u64);
        rep.count("C11", "mgr_conc_shards_cut", n_shards as u64);
        rep.count("C05", "mgr_conc_query_hits_judged", st.0);
        rep.count("C05", "mgr_conc_query_misses", st.1);
        if st.2 > 0 {
            rep.count("C11", "mgr_conc_op_errors", st.2);
        }
        if rep.wants_sample("C11") && nrec >= 4 {
            let mut s = w("sample");
            s["shards_cut"] = json!(n_shards);
            s["query_hits"] = json!(st.0);
            rep.sample("C11", s);
        }
    }
}
