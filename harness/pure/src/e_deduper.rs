//! FileDeduper in isolation against a mock dedup index (model-based): sequences of chunks over a small
//! alphabet (many repeats), small xorb limits, random block partitions.  Serves C02 / C05 / C14 / C15
//! at a scale where sequences can be explored densely.
use std::collections::HashMap;
use std::sync::{Arc, Mutex};

use async_trait::async_trait;
use deduplication::{Chunk, DeduplicationDataInterface, FileDeduper, RawXorbData};
use mdb_shard::file_structs::FileDataSequenceEntry;
use merklehash::MerkleHash;
use xvcommon::{case_iter, json, witness_base, Args, Report};

#[derive(Default)]
struct Index {
    /// registered xorbs: hash -> [(chunk hash, len)]
    xorbs: HashMap<MerkleHash, Vec<(MerkleHash, u32)>>,
    /// chunk hash -> (xorb, index) of its latest registration
    lookup: HashMap<MerkleHash, (MerkleHash, usize)>,
    puts: Vec<(MerkleHash, usize, usize)>,
}

struct Mock(Arc<Mutex<Index>>);

#[async_trait]
impl DeduplicationDataInterface for Mock {
    type ErrorType = String;

    async fn chunk_hash_dedup_query(&self, q: &[MerkleHash]) -> Result<Option<(usize, FileDataSequenceEntry)>, String> {
        let g = self.0.lock().unwrap();
        let Some((x, i)) = g.lookup.get(&q[0]) else { return Ok(None) };
        let xs = &g.xorbs[x];
        let mut n = 0;
        let mut bytes = 0u32;
        while n < q.len() && i + n < xs.len() && xs[i + n].0 == q[n] {
            bytes += xs[i + n].1;
            n += 1;
        }
        Ok(Some((n, FileDataSequenceEntry::new(*x, bytes as usize, *i, i + n))))
    }
    async fn register_global_dedup_query(&mut self, _h: MerkleHash) -> Result<(), String> {
        Ok(())
    }
    async fn complete_global_dedup_queries(&mut self) -> Result<bool, String> {
        Ok(false)
    }
    async fn register_new_xorb(&mut self, xorb: RawXorbData) -> Result<(), String> {
        let mut g = self.0.lock().unwrap();
        let h = xorb.hash();
        let list: Vec<(MerkleHash, u32)> = xorb.cas_info.chunks.iter().map(|c| (c.chunk_hash, c.unpacked_segment_bytes)).collect();
        let nbytes: usize = xorb.data.iter().map(|d| d.len()).sum();
        g.puts.push((h, list.len(), nbytes));
        for (i, c) in list.iter().enumerate() {
            g.lookup.insert(c.0, (h, i));
        }
        g.xorbs.insert(h, list);
        Ok(())
    }
}

fn block_on<F: std::future::Future>(f: F) -> F::Output {
    futures::executor::block_on(f)
}

pub fn run(args: &Args, rep: &mut Report) {
    let max_chunks = *deduplication::constants::MAX_XORB_CHUNKS;
    let max_bytes = *deduplication::constants::MAX_XORB_BYTES;
    let want_chunks: usize = std::env::var("HF_XET_MAX_XORB_CHUNKS").ok().and_then(|s| s.parse().ok()).unwrap_or(8192);
    if max_chunks != want_chunks {
        for p in ["C02", "C05", "C14", "C15"] {
            rep.inconclusive(p, "xorb chunk limit in effect differs from the environment");
        }
        return;
    }
    for (k, mut rng) in case_iter(args, 0xDED0, 3000) {
        // alphabet of distinct chunks (hash = keyed hash of the data, as the chunker would produce)
        let na = rng.urange(1, 7);
        let alphabet: Vec<Chunk> = (0..na)
            .map(|_| {
                let l = rng.urange(1, 40);
                let d = rng.bytes(l);
                Chunk { hash: merklehash::compute_data_hash(&d), data: Arc::from(d) }
            })
            .collect();
        let index = Arc::new(Mutex::new(Index::default()));
        // optional pre-registered xorbs (an "earlier session")
        if rng.chance(1, 2) {
            let mut m = Mock(index.clone());
            for _ in 0..rng.urange(1, 3) {
                let n = rng.urange(1, max_chunks.min(5));
                let cs: Vec<Chunk> = (0..n).map(|_| rng.pick(&alphabet).clone()).collect();
                let _ = block_on(m.register_new_xorb(RawXorbData::from_chunks(&cs)));
            }
            index.lock().unwrap().puts.clear();
        }
        let n = rng.urange(0, 24);
        let seq: Vec<usize> = (0..n).map(|_| rng.usize_below(na)).collect();
        let chunks: Vec<Chunk> = seq.iter().map(|i| alphabet[*i].clone()).collect();
        // block partition
        let mut cuts: Vec<usize> = (0..rng.urange(0, 4)).map(|_| rng.usize_below(n + 1)).collect();
        cuts.push(n);
        cuts.sort();
        let w = |what: &str| {
            let mut w = witness_base(args, "deduper", k);
            w["alphabet"] = json!(alphabet.iter().map(|c| c.data.len()).collect::<Vec<_>>());
            w["sequence"] = json!(seq);
            w["block_cuts"] = json!(cuts);
            w["max_xorb_chunks"] = json!(max_chunks);
            w["what"] = json!(what);
            w
        };
        let idx2 = index.clone();
        let res = xvcommon::catch(|| {
            let mut d = FileDeduper::new(Mock(idx2));
            let mut prev = 0;
            let mut per_block = Vec::new();
            for c in &cuts {
                if *c > prev {
                    per_block.push(block_on(d.process_chunks(&chunks[prev..*c])).map_err(|e| format!("process_chunks: {e}"))?);
                    prev = *c;
                }
            }
            let (fh, agg, metrics, _new_xorbs) = d.finalize([0u8; 32], None);
            let (leftover_xorb, files) = agg.finalize();
            Ok::<_, String>((fh, leftover_xorb, files, metrics, per_block))
        });
        let (fh, leftover_xorb, files, metrics, per_block) = match res {
            Err(p) => {
                // a panic of the deduper on a valid chunk sequence (with debug assertions on, the code's own
                // bookkeeping checks fire here) - reported under C15 (unresolved references) and C02
                rep.violation("C15", "deduper-panic", &format!("FileDeduper panicked on a valid chunk sequence: {}", p.lines().next().unwrap_or("")), w(&p));
                rep.case("C15", None);
                continue;
            },
            Ok(Err(e)) => {
                rep.inconclusive("C15", &e);
                continue;
            },
            Ok(Ok(v)) => v,
        };
        let g = index.lock().unwrap();
        // resolve the record: real hashes -> registered xorbs, zero hash -> the leftover aggregator
        let fi = &files[0];
        let mut all: Vec<(MerkleHash, u32)> = Vec::new();
        let mut problem: Option<(&str, String)> = None;
        let left: Vec<(MerkleHash, u32)> = leftover_xorb.cas_info.chunks.iter().map(|c| (c.chunk_hash, c.unpacked_segment_bytes)).collect();
        for (i, s) in fi.segments.iter().enumerate() {
            let xs: &Vec<(MerkleHash, u32)> = if s.cas_hash == leftover_xorb.hash() && !left.is_empty() {
                &left
            } else if let Some(x) = g.xorbs.get(&s.cas_hash) {
                x
            } else {
                let sig = if s.cas_hash == MerkleHash::default() { "deduper-unresolved-xorb" } else { "deduper-unknown-xorb" };
                problem = Some((sig, format!("segment {i} references xorb {} which was neither registered nor is the leftover xorb", s.cas_hash.hex())));
                break;
            };
            let (a, b) = (s.chunk_index_start as usize, s.chunk_index_end as usize);
            if a >= b || b > xs.len() {
                problem = Some(("deduper-range", format!("segment {i} range [{a},{b}) outside a xorb of {} chunks", xs.len())));
                break;
            }
            let sum: u32 = xs[a..b].iter().map(|c| c.1).sum();
            if sum != s.unpacked_segment_bytes {
                problem = Some(("deduper-segment-bytes", format!("segment {i}: {} bytes recorded, chunks sum to {sum}", s.unpacked_segment_bytes)));
                break;
            }
            all.extend_from_slice(&xs[a..b]);
        }
        let want: Vec<(MerkleHash, u32)> = chunks.iter().map(|c| (c.hash, c.data.len() as u32)).collect();
        if problem.is_none() && all != want {
            problem = Some(("deduper-chunks", "the segments do not reproduce the file's chunk sequence".into()));
        }
        if let Some((sig, msg)) = &problem {
            for p in ["C02", "C05"] {
                rep.violation(p, sig, msg, w(msg));
            }
            if sig.contains("unresolved") {
                rep.violation("C15", sig, msg, w(msg));
            }
        }
        let want_fh = merkledb::aggregate_hashes::file_node_hash(&chunks.iter().map(|c| (c.hash, c.data.len())).collect::<Vec<_>>(), &[0u8; 32]).unwrap();
        if fh != want_fh {
            rep.violation("C02", "deduper-file-hash", "file hash differs from the hash of the chunk sequence", w("file hash"));
        }
        // C15: limits on every xorb registered by this file and on the leftover
        for (h, nch, nb) in g.puts.iter().chain(std::iter::once(&(leftover_xorb.hash(), left.len(), left.iter().map(|c| c.1 as usize).sum::<usize>()))) {
            if *nch > max_chunks || *nb > max_bytes {
                rep.violation("C15", "deduper-xorb-over-limit", &format!("xorb {} with {nch} chunks / {nb} bytes exceeds the limits ({max_chunks} / {max_bytes})", h.hex()), w("limits"));
            }
        }
        // C14: conservation, also per block
        let total: usize = chunks.iter().map(|c| c.data.len()).sum();
        let mut bad14 = None;
        if metrics.total_bytes != total || metrics.total_chunks != n {
            bad14 = Some(format!("total {}B/{}c, fed {total}B/{n}c", metrics.total_bytes, metrics.total_chunks));
        } else if metrics.new_bytes + metrics.deduped_bytes != metrics.total_bytes || metrics.new_chunks + metrics.deduped_chunks != metrics.total_chunks {
            bad14 = Some("new + deduped != total".into());
        } else if metrics.defrag_prevented_dedup_bytes > metrics.new_bytes || metrics.defrag_prevented_dedup_chunks > metrics.new_chunks {
            bad14 = Some("withheld > new".into());
        }
        for b in &per_block {
            if b.new_bytes + b.deduped_bytes != b.total_bytes || b.defrag_prevented_dedup_bytes > b.new_bytes {
                bad14 = Some("per-block metrics not conserved".into());
            }
        }
        let new_actual: usize = g.puts.iter().map(|p| p.2).sum::<usize>() + left.iter().map(|c| c.1 as usize).sum::<usize>();
        if bad14.is_none() && metrics.new_bytes != new_actual {
            bad14 = Some(format!("new_bytes {} != bytes actually placed in new xorbs {new_actual}", metrics.new_bytes));
        }
        if let Some(m) = bad14 {
            rep.violation("C14", "deduper-metrics", &m, w(&m));
        }
        let sig = format!("a{na}|n{}|x{}|seg{}|d{}", (n + 3) / 4, g.puts.len().min(6), fi.segments.len().min(8), (metrics.deduped_chunks > 0) as u8);
        for p in ["C02", "C05", "C14", "C15"] {
            rep.case(p, if n >= 2 { Some(format!("deduper|{sig}")) } else { None });
        }
        rep.count("C15", "deduper_sequences", 1);
        rep.count("C05", "deduper_dedup_answers_used", metrics.deduped_chunks as u64);
        if rep.wants_sample("C15") && n >= 4 {
            rep.sample("C15", w("sample"));
        }
    }
}
