//! C04: the real `deduplication::Chunker` against the reference gear-hash rule, across call
//! partitions, stream classes and targets; plus the locality clause.
use deduplication::Chunker;
use xvcommon::refs::{leaf_hash, ref_chunk_boundaries};
use xvcommon::rng::{gen_data, DataClass, ALL_DATA_CLASSES};
use xvcommon::{case_iter, json, witness_base, Args, Report, Rng, Value};

const P: &str = "C04";

fn table() -> &'static [u64; 256] {
    &gearhash::DEFAULT_TABLE
}

#[derive(Clone, Copy, Debug, PartialEq, Eq)]
pub enum Partition {
    Whole,
    WholeNextBlock,
    OneByte,
    Fixed(usize),
    Random,
    RandomWithEmpty,
    AtBoundaries(i64),
    SkipRegion(usize),
}

/// Feed `data` into a fresh Chunker using the partition; returns chunk (end offset, hash, data-equal flag).
fn run_real(data: &[u8], target: usize, part: Partition, rng: &mut Rng, refb: &[usize]) -> Result<Vec<(usize, [u8; 32])>, String> {
    let mut ch = Chunker::new(target);
    let mut out: Vec<(usize, [u8; 32])> = Vec::new();
    let mut produced = 0usize;
    let mut push = |c: deduplication::Chunk, out: &mut Vec<(usize, [u8; 32])>| -> Result<(), String> {
        let start = produced;
        let end = start + c.data.len();
        if end > data.len() || c.data[..] != data[start..end] {
            return Err(format!("chunk bytes differ from input at [{start},{end})"));
        }
        produced = end;
        let mut h = [0u8; 32];
        h.copy_from_slice(c.hash.as_bytes());
        out.push((end, h));
        Ok(())
    };
    // cut points of the feed
    let n = data.len();
    let mut cuts: Vec<usize> = Vec::new();
    let mut use_next_block = false;
    match part {
        Partition::Whole => {},
        Partition::WholeNextBlock => use_next_block = true,
        Partition::OneByte => cuts.extend(1..n),
        Partition::Fixed(k) => {
            let mut p = k;
            while p < n {
                cuts.push(p);
                p += k;
            }
        },
        Partition::Random | Partition::RandomWithEmpty => {
            let k = rng.urange(1, 12.min(n.max(1)));
            for _ in 0..k {
                cuts.push(rng.usize_below(n + 1));
            }
            if part == Partition::RandomWithEmpty {
                // duplicates produce empty calls
                let extra: Vec<usize> = cuts.iter().take(3).cloned().collect();
                cuts.extend(extra);
                cuts.push(0);
                cuts.push(n);
            }
            cuts.sort();
        },
        Partition::AtBoundaries(d) => {
            for &b in refb {
                let c = b as i64 + d;
                if c > 0 && (c as usize) < n {
                    cuts.push(c as usize);
                }
            }
            cuts.sort();
        },
        Partition::SkipRegion(c) => {
            // a cut `c` bytes after every reference boundary (inside the skip-ahead region)
            cuts.push(c.min(n));
            for &b in refb {
                if b + c < n {
                    cuts.push(b + c);
                }
            }
            cuts.sort();
        },
    }
    let mut pieces: Vec<(usize, usize)> = Vec::new();
    let mut prev = 0usize;
    for c in cuts {
        let c = c.min(n);
        if c < prev {
            continue;
        }
        pieces.push((prev, c));
        prev = c;
    }
    pieces.push((prev, n));

    // one run in three hands the last piece over with is_final = true (the chunker's other way to end a stream);
    // finish() is still called afterwards and must then have nothing left
    let final_flag_mode = rng.chance(1, 3);
    let mut final_given = false;
    let n_pieces = pieces.len();
    for (pi, (a, b)) in pieces.into_iter().enumerate() {
        let piece = &data[a..b];
        let is_final = final_flag_mode && pi + 1 == n_pieces && !piece.is_empty();
        final_given |= is_final;
        if use_next_block || rng.chance(1, 3) {
            for c in ch.next_block(piece, is_final) {
                push(c, &mut out)?;
            }
        } else {
            let mut pos = 0;
            // `next` directly; an empty piece is passed through as an empty call
            loop {
                let (c, used) = ch.next(&piece[pos..], is_final);
                if used > piece.len() - pos {
                    return Err("next() consumed more than given".into());
                }
                pos += used;
                let got = c.is_some();
                if let Some(c) = c {
                    push(c, &mut out)?;
                }
                if pos >= piece.len() {
                    break;
                }
                if !got && used == 0 {
                    return Err("next() made no progress".into());
                }
            }
        }
    }
    let covered = out.last().map(|x| x.0).unwrap_or(0);
    if final_given && covered != n {
        return Err(format!("chunks cover {covered} of {n} bytes after the call flagged final"));
    }
    if let Some(c) = ch.finish() {
        push(c, &mut out)?;
    }
    if produced != n {
        return Err(format!("chunks cover {produced} of {n} bytes"));
    }
    Ok(out)
}

fn bucket(n: usize) -> u32 {
    if n == 0 {
        0
    } else {
        (usize::BITS - n.leading_zeros()) as u32
    }
}

/// search a short byte sequence whose gear hash (from 0) satisfies h & mask == 0 at its last byte
/// and at no earlier byte.
fn magic_sequence(rng: &mut Rng, mask: u64, len: usize, tries: usize) -> Option<Vec<u8>> {
    let t = table();
    'outer: for _ in 0..tries {
        let s = rng.bytes(len);
        let mut h = 0u64;
        for (i, b) in s.iter().enumerate() {
            h = (h << 1).wrapping_add(t[*b as usize]);
            if h & mask == 0 {
                if i + 1 == len {
                    return Some(s);
                }
                continue 'outer;
            }
        }
    }
    None
}

fn gen_stream(rng: &mut Rng, target: usize) -> (Vec<u8>, String) {
    let minimum = target / 8;
    let maximum = target * 2;
    let kind = rng.below(12);
    // boundary-biased length
    let len = match rng.below(10) {
        0 => 0,
        1 => 1,
        2 => minimum.saturating_sub(rng.usize_below(3)) + rng.usize_below(3),
        3 => maximum - 1 + rng.usize_below(3),
        4 => 2 * maximum + rng.usize_below(3),
        5 => minimum.saturating_sub(65) + rng.usize_below(4),
        _ => rng.log_range(1, (6 * maximum) as u64) as usize,
    };
    match kind {
        0..=3 => (gen_data(rng, DataClass::Random, len), "random".into()),
        4 => (gen_data(rng, DataClass::Zeros, len), "zeros".into()),
        5 => (gen_data(rng, DataClass::Const, len), "const".into()),
        6 => {
            // periodic with a period around the 64-byte window
            let p = rng.urange(60, 68);
            let pat = rng.bytes(p);
            ((0..len).map(|i| pat[i % p]).collect(), "periodic64".into())
        },
        7 => (gen_data(rng, DataClass::LowEntropy, len), "lowentropy".into()),
        8 => (gen_data(rng, DataClass::Text, len), "text".into()),
        9 | 10 => {
            // adversarial: a boundary as early as possible in every chunk
            let mask0 = (target - 1) as u64;
            let mask = mask0 << mask0.leading_zeros();
            let skip = if minimum > 64 { minimum - 65 } else { 0 };
            let mlen = rng.urange(1, 6);
            let bits = mask.count_ones();
            let tries = (1usize << bits.min(20)) * 8;
            if let Some(m) = magic_sequence(rng, mask, mlen, tries) {
                let mut v = Vec::with_capacity(len + skip + mlen);
                while v.len() < len {
                    let filler = rng.bytes(skip);
                    v.extend_from_slice(&filler);
                    v.extend_from_slice(&m);
                }
                (v, "adversarial_min".into())
            } else {
                (gen_data(rng, DataClass::Random, len), "random".into())
            }
        },
        _ => {
            // mixture: random with long constant runs (forces maximum-size cuts in the middle)
            let mut v = Vec::with_capacity(len);
            while v.len() < len {
                let seg = rng.log_range(1, maximum as u64 * 3) as usize;
                let c = *rng.pick(&ALL_DATA_CLASSES);
                v.extend_from_slice(&gen_data(rng, c, seg));
            }
            v.truncate(len);
            (v, "mixture".into())
        },
    }
}

pub fn run(args: &Args, rep: &mut Report) {
    let max_target_log = args.u64("max-target-log", 16) as u32;
    for (k, mut rng) in case_iter(args, 0xC04, 200) {
        // target: powers of two from 2^7; weighted towards small ones (cheap, more chunks)
        let tl = if rng.chance(1, 8) {
            rng.range(7, max_target_log as u64) as u32
        } else {
            rng.range(7, 13.min(max_target_log) as u64) as u32
        };
        let target = 1usize << tl;
        let minimum = target / 8;
        let maximum = target * 2;
        let (data, class) = gen_stream(&mut rng, target);
        let refb = ref_chunk_boundaries(&data, target, table());

        // reference self-checks (model sanity, never a violation of the code)
        debug_assert!(refb.last().copied().unwrap_or(0) == data.len());

        let mut parts = vec![Partition::Whole, Partition::WholeNextBlock, Partition::Random, Partition::RandomWithEmpty];
        parts.push(Partition::AtBoundaries(*rng.pick(&[-1i64, 0, 1])));
        if data.len() <= 6000 {
            parts.push(Partition::OneByte);
        }
        parts.push(Partition::Fixed(rng.urange(1, maximum + 7)));
        if minimum > 64 {
            parts.push(Partition::SkipRegion(rng.urange(0, minimum - 64 + 2)));
        }

        let mut forced_max = false;
        let mut at_min_edge = false;
        for part in parts {
            let mut prng = rng.fork();
            let prng_state = prng.clone();
            let res = xvcommon::catch(|| run_real(&data, target, part, &mut prng, &refb));
            let witness = || -> Value {
                let mut w = witness_base(args, "chunker", k);
                w["target"] = json!(target);
                w["class"] = json!(class);
                w["len"] = json!(data.len());
                w["partition"] = json!(format!("{part:?}"));
                let _ = &prng_state;
                w
            };
            let real = match res {
                Err(p) => {
                    rep.violation(P, "chunker-panic", &format!("Chunker panicked: {p}"), witness());
                    rep.case(P, None);
                    continue;
                },
                Ok(Err(e)) => {
                    rep.violation(P, "chunker-concat", &e, witness());
                    rep.case(P, None);
                    continue;
                },
                Ok(Ok(r)) => r,
            };
            let realb: Vec<usize> = real.iter().map(|x| x.0).collect();
            if realb != refb {
                let first = realb.iter().zip(refb.iter()).position(|(a, b)| a != b).unwrap_or(realb.len().min(refb.len()));
                let mut w = witness();
                w["first_diff_chunk"] = json!(first);
                w["real"] = json!(realb.get(first));
                w["ref"] = json!(refb.get(first));
                rep.violation(P, "chunker-boundaries-vs-reference", "chunk boundaries differ from reference rule", w);
            }
            // bounds + hashes
            let mut prev = 0usize;
            for (i, (end, h)) in real.iter().enumerate() {
                let l = end - prev;
                if l > maximum {
                    rep.violation(P, "chunker-over-max", &format!("chunk of {l} > max {maximum}"), witness());
                }
                if l == maximum {
                    forced_max = true;
                }
                let is_last = i + 1 == real.len();
                if !is_last && l + 64 < minimum {
                    rep.violation(P, "chunker-under-min", &format!("non-final chunk of {l} < min-64"), witness());
                }
                if !is_last && l + 64 <= minimum + 2 && minimum > 64 {
                    at_min_edge = true;
                }
                if l == 0 {
                    rep.violation(P, "chunker-empty-chunk", "empty chunk emitted", witness());
                }
                if *h != leaf_hash(&data[prev..*end]) {
                    rep.violation(P, "chunker-hash", "chunk hash differs from keyed blake3 of its bytes", witness());
                }
                prev = *end;
            }
            let nontrivial = real.len() >= 2;
            let sig = format!(
                "t{tl}|{class}|l{}|{}|c{}|fm{}|me{}",
                bucket(data.len()),
                match part {
                    Partition::Fixed(_) => "Fixed".to_string(),
                    Partition::SkipRegion(_) => "SkipRegion".to_string(),
                    p => format!("{p:?}"),
                },
                bucket(real.len()),
                forced_max as u8,
                at_min_edge as u8
            );
            rep.case(P, if nontrivial { Some(sig) } else { None });
            rep.count(P, "chunks_compared", real.len() as u64);
            if rep.wants_sample(P) && nontrivial {
                let mut w = witness();
                w["boundaries_head"] = json!(realb.iter().take(8).collect::<Vec<_>>());
                w["n_chunks"] = json!(realb.len());
                rep.sample(P, w);
            }
        }
        if forced_max {
            rep.count(P, "cases_with_forced_max_cut", 1);
        }
        if at_min_edge {
            rep.count(P, "cases_with_chunk_at_minimum_edge", 1);
        }

        // locality: prefix (ending exactly at a reference boundary) ++ X chunks like X shifted
        if refb.len() >= 3 {
            let cut = refb[rng.usize_below(refb.len() - 1)];
            let x = &data[cut..];
            let xb = ref_chunk_boundaries(x, target, table());
            let other_prefix = {
                // another prefix that also ends at a boundary: take from an unrelated stream
                let (d2, _) = gen_stream(&mut rng, target);
                let b2 = ref_chunk_boundaries(&d2, target, table());
                if b2.len() >= 2 {
                    d2[..b2[rng.usize_below(b2.len() - 1)]].to_vec()
                } else {
                    Vec::new()
                }
            };
            let mut joined = other_prefix.clone();
            joined.extend_from_slice(x);
            let jb = ref_chunk_boundaries(&joined, target, table());
            let mut prng = rng.fork();
            match xvcommon::catch(|| run_real(&joined, target, Partition::Random, &mut prng, &jb)) {
                Ok(Ok(real)) => {
                    let tail: Vec<usize> =
                        real.iter().map(|r| r.0).filter(|e| *e > other_prefix.len()).map(|e| e - other_prefix.len()).collect();
                    if tail != xb {
                        let mut w = witness_base(args, "chunker", k);
                        w["target"] = json!(target);
                        w["locality"] = json!(true);
                        rep.violation(P, "chunker-locality", "identical content after a boundary chunked differently at another offset", w);
                    }
                    rep.count(P, "locality_cases", 1);
                },
                Ok(Err(e)) => {
                    rep.violation(P, "chunker-concat", &e, witness_base(args, "chunker", k));
                },
                Err(p) => {
                    rep.violation(P, "chunker-panic", &p, witness_base(args, "chunker", k));
                },
            }
        }
    }
}
