//! Shared machinery of the verification harness: deterministic RNG, worker report
//! protocol, argument parsing and the independent reference models.
pub mod refs;
pub mod report;
pub mod rng;

pub use report::{case_iter, witness_base, Args, Report};
pub use rng::Rng;
pub use serde_json::{json, Value};

/// Hex of bytes (plain, byte order).
pub fn hexb(b: &[u8]) -> String {
    let mut s = String::with_capacity(b.len() * 2);
    for x in b {
        s.push_str(&format!("{:02x}", x));
    }
    s
}

/// Run a closure, catching panics; returns Err(message) on panic.
pub fn catch<T>(f: impl FnOnce() -> T) -> Result<T, String> {
    match std::panic::catch_unwind(std::panic::AssertUnwindSafe(f)) {
        Ok(v) => Ok(v),
        Err(e) => Err(panic_msg(&e)),
    }
}

pub fn panic_msg(e: &Box<dyn std::any::Any + Send>) -> String {
    if let Some(s) = e.downcast_ref::<&str>() {
        s.to_string()
    } else if let Some(s) = e.downcast_ref::<String>() {
        s.clone()
    } else {
        "<non-string panic>".to_string()
    }
}

static PANIC_LOG: std::sync::Mutex<Vec<String>> = std::sync::Mutex::new(Vec::new());

/// Panics seen by the hook since the last call, as "file:line: message" (any thread; bounded).
pub fn take_panic_log() -> Vec<String> {
    std::mem::take(&mut *PANIC_LOG.lock().unwrap_or_else(|e| e.into_inner()))
}

/// Install a quiet panic hook (panics of the code under test are expected in some checks and
/// are reported through the oracle; the default hook would flood stderr).  The hook records where
/// each panic came from, so that a panic on another thread (a runtime worker) can be attributed.
pub fn quiet_panics() {
    std::panic::set_hook(Box::new(|info| {
        if std::env::var("XV_SHOW_PANICS").is_ok() {
            eprintln!("panic: {info}");
        }
        let loc = info.location().map(|l| format!("{}:{}", l.file(), l.line())).unwrap_or_default();
        let msg = if let Some(s) = info.payload().downcast_ref::<&str>() {
            s.to_string()
        } else if let Some(s) = info.payload().downcast_ref::<String>() {
            s.clone()
        } else {
            String::new()
        };
        let mut g = PANIC_LOG.lock().unwrap_or_else(|e| e.into_inner());
        if g.len() < 64 {
            g.push(format!("{loc}: {}", msg.replace('\n', " ")));
        }
    }));
}

/// The gear-hash table constants (taken as data from the gearhash crate).
pub fn gear_table() -> [u64; 256] {
    gearhash::DEFAULT_TABLE
}
