//! Shared machinery of the verification harness: deterministic RNG, worker report
//! protocol, argument parsing and the independent reference models.
pub mod refs;
pub mod report;
pub mod rng;

pub use report::{case_iter, witness_base, Args, Report};
pub use rng::Rng;
pub use serde_json::{json, Value};

/// Hex of bytes (plain, byte order).
pub fn hexb(b: &[u8]) -> String {
    let mut s = String::with_capacity(b.len() * 2);
    for x in b {
        s.push_str(&format!("{:02x}", x));
    }
    s
}

/// Run a closure, catching panics; returns Err(message) on panic.
pub fn catch<T>(f: impl FnOnce() -> T) -> Result<T, String> {
    match std::panic::catch_unwind(std::panic::AssertUnwindSafe(f)) {
        Ok(v) => Ok(v),
        Err(e) => Err(panic_msg(&e)),
    }
}

pub fn panic_msg(e: &Box<dyn std::any::Any + Send>) -> String {
    if let Some(s) = e.downcast_ref::<&str>() {
        s.to_string()
    } else if let Some(s) = e.downcast_ref::<String>() {
        s.clone()
    } else {
        "<non-string panic>".to_string()
    }
}

/// Install a quiet panic hook (panics of the code under test are expected in some checks and
/// are reported through the oracle; the default hook would flood stderr).
pub fn quiet_panics() {
    std::panic::set_hook(Box::new(|info| {
        if std::env::var("XV_SHOW_PANICS").is_ok() {
            eprintln!("panic: {info}");
        }
    }));
}

/// The gear-hash table constants (taken as data from the gearhash crate).
pub fn gear_table() -> [u64; 256] {
    gearhash::DEFAULT_TABLE
}
