//! Worker-side report protocol.  A worker process explores cases and prints exactly one line
//! `XVREPORT <json>` on stdout at the end; the driver (bin/check) merges the reports of all
//! workers into the evidence file and decides the verdict.
use std::collections::{BTreeMap, BTreeSet, HashMap};
use std::time::Instant;

use serde_json::{json, Value};

pub struct Args {
    map: HashMap<String, String>,
    pub start: Instant,
}

impl Args {
    pub fn parse() -> Self {
        let mut map = HashMap::new();
        let argv: Vec<String> = std::env::args().skip(1).collect();
        let mut i = 0;
        let mut pos = 0;
        while i < argv.len() {
            if let Some(k) = argv[i].strip_prefix("--") {
                if i + 1 < argv.len() && !argv[i + 1].starts_with("--") {
                    map.insert(k.to_string(), argv[i + 1].clone());
                    i += 2;
                } else {
                    map.insert(k.to_string(), "1".to_string());
                    i += 1;
                }
            } else {
                map.insert(format!("_{pos}"), argv[i].clone());
                pos += 1;
                i += 1;
            }
        }
        Args {
            map,
            start: Instant::now(),
        }
    }
    pub fn from_pairs(pairs: &[(&str, &str)]) -> Self {
        Args {
            map: pairs.iter().map(|(k, v)| (k.to_string(), v.to_string())).collect(),
            start: Instant::now(),
        }
    }
    pub fn pos(&self, i: usize) -> Option<&str> {
        self.map.get(&format!("_{i}")).map(|s| s.as_str())
    }
    pub fn get(&self, k: &str) -> Option<&str> {
        self.map.get(k).map(|s| s.as_str())
    }
    pub fn has(&self, k: &str) -> bool {
        self.map.contains_key(k)
    }
    pub fn u64(&self, k: &str, default: u64) -> u64 {
        self.map.get(k).and_then(|s| s.parse().ok()).unwrap_or(default)
    }
    pub fn usize(&self, k: &str, default: usize) -> usize {
        self.u64(k, default as u64) as usize
    }
    pub fn str(&self, k: &str, default: &str) -> String {
        self.map.get(k).cloned().unwrap_or_else(|| default.to_string())
    }
    /// wall-clock budget exhausted?  (budget is a *cap*, never a verdict)
    pub fn out_of_time(&self) -> bool {
        let ms = self.u64("time-ms", 0);
        ms != 0 && self.start.elapsed().as_millis() as u64 >= ms
    }
    pub fn only(&self) -> Option<u64> {
        self.map.get("only").and_then(|s| s.parse().ok())
    }
}

const MAX_SIGS: usize = 20000;
const MAX_SAMPLES: usize = 4;
const MAX_VIOLATIONS: usize = 12;

#[derive(Default)]
pub struct PropReport {
    pub evaluations: u64,
    pub nontrivial: u64,
    pub sigs: BTreeSet<String>,
    pub counters: BTreeMap<String, u64>,
    pub samples: Vec<Value>,
    pub violations: Vec<Value>,
    pub violation_count: u64,
    pub inconclusive: u64,
    pub inconclusive_notes: Vec<String>,
}

#[derive(Default)]
pub struct Report {
    pub props: BTreeMap<String, PropReport>,
}

impl Report {
    pub fn new() -> Self {
        Self::default()
    }
    pub fn p(&mut self, prop: &str) -> &mut PropReport {
        self.props.entry(prop.to_string()).or_default()
    }
    /// Record one evaluated case; `sig` is Some(structural signature) when the case is non-trivial.
    pub fn case(&mut self, prop: &str, sig: Option<String>) {
        let p = self.p(prop);
        p.evaluations += 1;
        if let Some(s) = sig {
            p.nontrivial += 1;
            if p.sigs.len() < MAX_SIGS {
                p.sigs.insert(s);
            }
        }
    }
    pub fn count(&mut self, prop: &str, key: &str, n: u64) {
        *self.p(prop).counters.entry(key.to_string()).or_insert(0) += n;
    }
    pub fn max(&mut self, prop: &str, key: &str, n: u64) {
        let e = self.p(prop).counters.entry(format!("max_{key}")).or_insert(0);
        if n > *e {
            *e = n;
        }
    }
    pub fn sample(&mut self, prop: &str, v: Value) {
        let p = self.p(prop);
        if p.samples.len() < MAX_SAMPLES {
            p.samples.push(v);
        }
    }
    pub fn wants_sample(&mut self, prop: &str) -> bool {
        self.p(prop).samples.len() < MAX_SAMPLES
    }
    /// Record a violation.  `kf_sig` is the exact signature used to match known findings
    /// (failing input class / call site), `witness` holds everything needed to replay.
    pub fn violation(&mut self, prop: &str, kf_sig: &str, what: &str, witness: Value) {
        let p = self.p(prop);
        p.violation_count += 1;
        if p.violations.len() < MAX_VIOLATIONS || !p.violations.iter().any(|v| v["kf_sig"] == kf_sig) {
            p.violations.push(json!({"kf_sig": kf_sig, "what": what, "witness": witness}));
        }
    }
    pub fn inconclusive(&mut self, prop: &str, note: &str) {
        let p = self.p(prop);
        p.inconclusive += 1;
        if p.inconclusive_notes.len() < 5 {
            p.inconclusive_notes.push(note.to_string());
        }
    }
    pub fn to_json(&self) -> Value {
        let mut m = serde_json::Map::new();
        for (k, p) in &self.props {
            m.insert(
                k.clone(),
                json!({
                    "evaluations": p.evaluations,
                    "nontrivial": p.nontrivial,
                    "sigs": p.sigs.iter().collect::<Vec<_>>(),
                    "counters": p.counters,
                    "samples": p.samples,
                    "violations": p.violations,
                    "violation_count": p.violation_count,
                    "inconclusive": p.inconclusive,
                    "inconclusive_notes": p.inconclusive_notes,
                }),
            );
        }
        Value::Object(m)
    }
    pub fn finish(&self) {
        use std::io::Write;
        let s = format!("XVREPORT {}\n", self.to_json());
        let out = std::io::stdout();
        let mut l = out.lock();
        let _ = l.write_all(s.as_bytes());
        let _ = l.flush();
    }
}

/// Iterate over the case indices of this worker: `--cases N` (default given), or just `--only K`.
/// Each case gets an independent generator derived from (seed, worker, case index, tag), so a case
/// is replayed exactly by `--seed S --worker W --only K`.
pub fn case_iter(args: &Args, tag: u64, default_cases: u64) -> impl Iterator<Item = (u64, crate::rng::Rng)> + '_ {
    let seed = args.u64("seed", 1);
    let worker = args.u64("worker", 0);
    let n = args.u64("cases", default_cases);
    let range: Box<dyn Iterator<Item = u64>> = match args.only() {
        Some(k) => Box::new(std::iter::once(k)),
        None => Box::new(0..n),
    };
    range
        .take_while(move |_| !args.out_of_time())
        .map(move |k| {
            progress(k);
            (k, crate::rng::Rng::new(crate::rng::mix(&[seed, worker, k, tag])))
        })
}

/// Standard witness prefix: how to re-run exactly this case.
pub fn witness_base(args: &Args, engine: &str, k: u64) -> Value {
    json!({"engine": engine, "seed": args.u64("seed", 1), "worker": args.u64("worker", 0), "only": k})
}

/// Record the case about to run in $XV_PROGRESS so that the driver can attribute a process death
/// (abort, stack overflow, OOM kill) to one case and re-run just that case.
pub fn progress(k: u64) {
    use std::io::{Seek, SeekFrom, Write};
    use std::sync::Mutex;
    static FILE: Mutex<Option<Option<std::fs::File>>> = Mutex::new(None);
    let mut g = FILE.lock().unwrap();
    if g.is_none() {
        *g = Some(std::env::var("XV_PROGRESS").ok().and_then(|p| std::fs::File::create(p).ok()));
    }
    if let Some(Some(f)) = g.as_mut() {
        let _ = f.seek(SeekFrom::Start(0));
        let _ = f.write_all(format!("{k:<20}").as_bytes());
    }
}
