//! xoshiro256** seeded through splitmix64; all randomness of the harness derives from
//! VERIF_SEED through this generator.

#[derive(Clone, Debug)]
pub struct Rng {
    s: [u64; 4],
}

pub fn splitmix(x: &mut u64) -> u64 {
    *x = x.wrapping_add(0x9E3779B97F4A7C15);
    let mut z = *x;
    z = (z ^ (z >> 30)).wrapping_mul(0xBF58476D1CE4E5B9);
    z = (z ^ (z >> 27)).wrapping_mul(0x94D049BB133111EB);
    z ^ (z >> 31)
}

/// Mix several integers into one seed.
pub fn mix(parts: &[u64]) -> u64 {
    let mut x = 0x1234_5678_9abc_def0u64;
    let mut acc = 0u64;
    for p in parts {
        x ^= *p;
        acc = acc.rotate_left(17) ^ splitmix(&mut x);
    }
    acc
}

impl Rng {
    pub fn new(seed: u64) -> Self {
        let mut x = seed;
        let s = [splitmix(&mut x), splitmix(&mut x), splitmix(&mut x), splitmix(&mut x)];
        Rng { s }
    }

    #[inline]
    pub fn next_u64(&mut self) -> u64 {
        let result = self.s[1].wrapping_mul(5).rotate_left(7).wrapping_mul(9);
        let t = self.s[1] << 17;
        self.s[2] ^= self.s[0];
        self.s[3] ^= self.s[1];
        self.s[1] ^= self.s[2];
        self.s[0] ^= self.s[3];
        self.s[2] ^= t;
        self.s[3] = self.s[3].rotate_left(45);
        result
    }

    #[inline]
    pub fn next_u32(&mut self) -> u32 {
        (self.next_u64() >> 32) as u32
    }

    /// uniform in [0, n); n == 0 returns 0
    #[inline]
    pub fn below(&mut self, n: u64) -> u64 {
        if n == 0 {
            0
        } else {
            ((self.next_u64() as u128 * n as u128) >> 64) as u64
        }
    }

    #[inline]
    pub fn usize_below(&mut self, n: usize) -> usize {
        self.below(n as u64) as usize
    }

    /// uniform in [lo, hi] inclusive
    #[inline]
    pub fn range(&mut self, lo: u64, hi: u64) -> u64 {
        debug_assert!(lo <= hi);
        lo + self.below(hi - lo + 1)
    }

    #[inline]
    pub fn urange(&mut self, lo: usize, hi: usize) -> usize {
        self.range(lo as u64, hi as u64) as usize
    }

    /// true with probability num/den
    #[inline]
    pub fn chance(&mut self, num: u64, den: u64) -> bool {
        self.below(den) < num
    }

    pub fn fill(&mut self, buf: &mut [u8]) {
        let mut chunks = buf.chunks_exact_mut(8);
        for c in &mut chunks {
            c.copy_from_slice(&self.next_u64().to_le_bytes());
        }
        let rem = chunks.into_remainder();
        if !rem.is_empty() {
            let v = self.next_u64().to_le_bytes();
            rem.copy_from_slice(&v[..rem.len()]);
        }
    }

    pub fn bytes(&mut self, n: usize) -> Vec<u8> {
        let mut v = vec![0u8; n];
        self.fill(&mut v);
        v
    }

    pub fn pick<'a, T>(&mut self, xs: &'a [T]) -> &'a T {
        &xs[self.usize_below(xs.len())]
    }

    pub fn shuffle<T>(&mut self, xs: &mut [T]) {
        for i in (1..xs.len()).rev() {
            let j = self.usize_below(i + 1);
            xs.swap(i, j);
        }
    }

    /// log-uniform integer in [lo, hi]
    pub fn log_range(&mut self, lo: u64, hi: u64) -> u64 {
        let lo_f = (lo.max(1)) as f64;
        let hi_f = (hi.max(1)) as f64;
        let u = (self.next_u64() >> 11) as f64 / (1u64 << 53) as f64;
        let v = (lo_f.ln() + u * (hi_f.ln() - lo_f.ln())).exp();
        (v.round() as u64).clamp(lo, hi)
    }

    /// derive an independent child generator
    pub fn fork(&mut self) -> Rng {
        Rng::new(self.next_u64())
    }
}

/// Data classes used for content generation.
#[derive(Clone, Copy, Debug, PartialEq, Eq)]
pub enum DataClass {
    Random,
    Zeros,
    Const,
    Text,
    F32,
    F16,
    LowEntropy,
    Periodic,
    /// 8-byte records (3 arbitrary bytes + a byte with >= 4 bits set, twice), each stored twice in a row: the byte-grouping
    /// predictor recommends grouping, grouping destroys the 8-byte repeats that plain LZ4 finds
    DoubledRecords,
    /// incompressible data whose every 4th byte has a skewed bit count: grouping is predicted and does not pay off
    SkewedHigh,
}

pub const ALL_DATA_CLASSES: [DataClass; 8] = [
    DataClass::Random,
    DataClass::Zeros,
    DataClass::Const,
    DataClass::Text,
    DataClass::F32,
    DataClass::F16,
    DataClass::LowEntropy,
    DataClass::Periodic,
];

pub fn gen_data(rng: &mut Rng, class: DataClass, n: usize) -> Vec<u8> {
    match class {
        DataClass::Random => rng.bytes(n),
        DataClass::Zeros => vec![0u8; n],
        DataClass::Const => vec![rng.next_u32() as u8; n],
        DataClass::Text => {
            const WORDS: [&str; 12] = [
                "the ", "quick ", "brown ", "fox ", "jumps ", "over ", "lazy ", "dog ", "xet ", "core\n", "hash ", "chunk ",
            ];
            let mut v = Vec::with_capacity(n + 8);
            while v.len() < n {
                v.extend_from_slice(WORDS[rng.usize_below(WORDS.len())].as_bytes());
            }
            v.truncate(n);
            v
        },
        DataClass::F32 => {
            let mut v = Vec::with_capacity(n + 4);
            let mut x = 1.0f32;
            while v.len() < n {
                x += ((rng.next_u32() % 1000) as f32 - 500.0) * 1e-4;
                v.extend_from_slice(&x.to_le_bytes());
            }
            v.truncate(n);
            v
        },
        DataClass::F16 => {
            // bf16-like: high bytes slowly varying, low bytes noisy
            let mut v = Vec::with_capacity(n + 2);
            let mut hi = 0x3fu8;
            while v.len() < n {
                if rng.chance(1, 50) {
                    hi = hi.wrapping_add(1);
                }
                v.push(rng.next_u32() as u8);
                v.push(hi);
            }
            v.truncate(n);
            v
        },
        DataClass::LowEntropy => {
            let a = rng.next_u32() as u8;
            let b = rng.next_u32() as u8;
            (0..n).map(|_| if rng.chance(1, 16) { b } else { a }).collect()
        },
        DataClass::DoubledRecords | DataClass::SkewedHigh => {
            let high: Vec<u8> = (0u16..256).map(|b| b as u8).filter(|b| b.count_ones() >= 4).collect();
            let mut v = Vec::with_capacity(n + 16);
            while v.len() < n {
                let mut rec = [0u8; 8];
                rng.fill(&mut rec);
                rec[3] = *rng.pick(&high);
                rec[7] = *rng.pick(&high);
                v.extend_from_slice(&rec);
                if class == DataClass::DoubledRecords {
                    v.extend_from_slice(&rec);
                }
            }
            v.truncate(n);
            v
        },
        DataClass::Periodic => {
            let p = rng.urange(1, 130);
            let pat = rng.bytes(p);
            (0..n).map(|i| pat[i % p]).collect()
        },
    }
}
