//! Independent reference models.  None of these call into the code under test; they are
//! written from the published constructions (and share only third-party primitives:
//! blake3, sha2, lz4_flex's frame decoder, the gearhash table constants).
use std::io::Read;

pub type H = [u8; 32];

pub const DATA_KEY: [u8; 32] = [
    102, 151, 245, 119, 91, 149, 80, 222, 49, 53, 203, 172, 165, 151, 24, 28, 157, 228, 33, 16, 155, 235, 43, 88, 180,
    208, 176, 75, 147, 173, 242, 41,
];
pub const INTERNAL_NODE_KEY: [u8; 32] = [
    1, 126, 197, 199, 165, 71, 41, 150, 253, 148, 102, 102, 180, 138, 2, 230, 93, 221, 83, 111, 55, 199, 109, 210, 248,
    99, 82, 230, 74, 83, 113, 63,
];
pub const VERIFICATION_KEY: [u8; 32] = [
    127, 24, 87, 214, 206, 86, 237, 102, 18, 127, 249, 19, 231, 165, 195, 243, 164, 205, 38, 213, 181, 219, 73, 230,
    65, 36, 152, 127, 40, 251, 148, 195,
];

/// chunk (leaf) hash
pub fn leaf_hash(data: &[u8]) -> H {
    *blake3::keyed_hash(&DATA_KEY, data).as_bytes()
}

/// text form of a hash as used inside interior nodes: four little-endian u64 words, each
/// printed as 16 hex digits.
pub fn hex_words(h: &H) -> String {
    let mut s = String::with_capacity(64);
    for w in 0..4 {
        let mut b = [0u8; 8];
        b.copy_from_slice(&h[w * 8..w * 8 + 8]);
        s.push_str(&format!("{:016x}", u64::from_le_bytes(b)));
    }
    s
}

pub fn from_hex_words(s: &str) -> Option<H> {
    if s.len() != 64 {
        return None;
    }
    let mut h = [0u8; 32];
    for w in 0..4 {
        let v = u64::from_str_radix(&s[w * 16..w * 16 + 16], 16).ok()?;
        h[w * 8..w * 8 + 8].copy_from_slice(&v.to_le_bytes());
    }
    Some(h)
}

fn interior_hash(children: &[(H, u64)]) -> H {
    let mut buf = String::new();
    for (h, len) in children {
        buf.push_str(&hex_words(h));
        buf.push_str(" : ");
        buf.push_str(&len.to_string());
        buf.push('\n');
    }
    *blake3::keyed_hash(&INTERNAL_NODE_KEY, buf.as_bytes()).as_bytes()
}

/// Root of the merkle tree over (hash, len) leaves: groups are cut after a child when the
/// group already has >= 3 children and that child's last u64 word % 4 == 0, or when the group
/// has 9 children, or at the end of the level; levels are merged until one node is left.
pub fn merkle_root(leaves: &[(H, u64)]) -> H {
    if leaves.is_empty() {
        return [0u8; 32];
    }
    let mut level: Vec<(H, u64)> = leaves.to_vec();
    while level.len() > 1 {
        let mut next = Vec::new();
        let mut start = 0usize;
        let mut total = 0u64;
        for idx in 0..level.len() {
            total += level[idx].1;
            let before = idx - start;
            let mut w = [0u8; 8];
            w.copy_from_slice(&level[idx].0[24..32]);
            let w3 = u64::from_le_bytes(w);
            if (before >= 2 && w3 % 4 == 0) || before >= 8 || idx + 1 == level.len() {
                next.push((interior_hash(&level[start..=idx]), total));
                start = idx + 1;
                total = 0;
            }
        }
        level = next;
    }
    level[0].0
}

pub fn xorb_hash(leaves: &[(H, u64)]) -> H {
    merkle_root(leaves)
}

pub fn file_hash(leaves: &[(H, u64)], salt: &[u8; 32]) -> H {
    if leaves.is_empty() {
        return [0u8; 32];
    }
    let root = merkle_root(leaves);
    *blake3::keyed_hash(salt, &root).as_bytes()
}

pub fn range_hash(hashes: &[H]) -> H {
    let mut buf = Vec::with_capacity(hashes.len() * 32);
    for h in hashes {
        buf.extend_from_slice(h);
    }
    *blake3::keyed_hash(&VERIFICATION_KEY, &buf).as_bytes()
}

pub fn hmac(h: &H, key: &H) -> H {
    *blake3::keyed_hash(key, h).as_bytes()
}

pub fn sha256(data: &[u8]) -> H {
    use sha2::Digest;
    let d = sha2::Sha256::digest(data);
    let mut h = [0u8; 32];
    h.copy_from_slice(&d);
    h
}

/// The repository stores a SHA-256 in a MerkleHash by parsing its hex string as four
/// big-endian-printed u64 words; this converts a raw digest into that byte layout.
pub fn sha256_as_merklehash_bytes(d: &H) -> H {
    let mut out = [0u8; 32];
    for w in 0..4 {
        let mut b = [0u8; 8];
        b.copy_from_slice(&d[w * 8..w * 8 + 8]);
        let v = u64::from_be_bytes(b);
        out[w * 8..w * 8 + 8].copy_from_slice(&v.to_le_bytes());
    }
    out
}

// ------------------------------------------------------------------------------------------
// reference chunker

/// Reference content-defined chunking: returns chunk end offsets.
/// Rule: minimum = target/8, maximum = 2*target, mask = (target-1) shifted to the top bits.
/// In each chunk the gear hash (h = (h<<1) + TABLE[b], starting from 0) starts
/// `minimum - 64 - 1` bytes into the chunk when minimum > 64 (from the first byte otherwise);
/// the chunk ends after the first byte with h & mask == 0, or at `maximum` bytes, or at the
/// end of the stream.
pub fn ref_chunk_boundaries(data: &[u8], target: usize, table: &[u64; 256]) -> Vec<usize> {
    ref_chunk_boundaries_cfg(data, target, target / 8, target * 2, table)
}

pub fn ref_chunk_boundaries_cfg(data: &[u8], target: usize, minimum: usize, maximum: usize, table: &[u64; 256]) -> Vec<usize> {
    let mask0 = (target - 1) as u64;
    let mask = mask0 << mask0.leading_zeros();
    let skip = if minimum > 64 { minimum - 64 - 1 } else { 0 };
    let mut out = Vec::new();
    let mut start = 0usize;
    let n = data.len();
    while start < n {
        let mut h: u64 = 0;
        let mut i = start + skip;
        let mut end = None;
        while i < n && i - start < maximum {
            h = (h << 1).wrapping_add(table[data[i] as usize]);
            i += 1;
            if h & mask == 0 {
                end = Some(i);
                break;
            }
        }
        let e = match end {
            Some(e) => e,
            None => n.min(start + maximum),
        };
        out.push(e);
        start = e;
    }
    out
}

// ------------------------------------------------------------------------------------------
// reference xorb reader / validator

#[derive(Debug, Clone)]
pub struct RefXorb {
    pub footer_hash: Option<H>,
    pub footer_chunk_hashes: Option<Vec<H>>,
    pub footer_boundaries: Option<Vec<u32>>,
    pub footer_unpacked: Option<Vec<u32>>,
    pub chunks: Vec<Vec<u8>>,
    /// end offset (in the serialized stream) of every chunk
    pub boundaries: Vec<u32>,
    pub computed_hash: H,
    pub chunk_hashes: Vec<H>,
}

fn rd_u32(b: &[u8], p: &mut usize) -> Result<u32, String> {
    if *p + 4 > b.len() {
        return Err("eof".into());
    }
    let v = u32::from_le_bytes([b[*p], b[*p + 1], b[*p + 2], b[*p + 3]]);
    *p += 4;
    Ok(v)
}
fn rd_bytes<'a>(b: &'a [u8], p: &mut usize, n: usize) -> Result<&'a [u8], String> {
    if *p + n > b.len() {
        return Err("eof".into());
    }
    let r = &b[*p..*p + n];
    *p += n;
    Ok(r)
}

pub fn bg4_regroup_ref(g: &[u8]) -> Vec<u8> {
    let n = g.len();
    let split = n / 4;
    let rem = n % 4;
    let l0 = split + (rem >= 1) as usize;
    let l1 = split + (rem >= 2) as usize;
    let l2 = split + (rem >= 3) as usize;
    let offs = [0, l0, l0 + l1, l0 + l1 + l2];
    (0..n).map(|k| g[offs[k % 4] + k / 4]).collect()
}

pub fn bg4_split_ref(d: &[u8]) -> Vec<u8> {
    let mut out = Vec::with_capacity(d.len());
    for j in 0..4 {
        let mut k = j;
        while k < d.len() {
            out.push(d[k]);
            k += 4;
        }
    }
    out
}

pub const MAX_CHUNK: usize = 128 * 1024;

/// decode one serialized chunk at `p`; returns (data, new position)
pub fn ref_decode_chunk(b: &[u8], p: usize) -> Result<(Vec<u8>, usize), String> {
    if p + 8 > b.len() {
        return Err("eof in chunk header".into());
    }
    let version = b[p];
    let clen = u32::from_le_bytes([b[p + 1], b[p + 2], b[p + 3], 0]) as usize;
    let scheme = b[p + 4];
    let ulen = u32::from_le_bytes([b[p + 5], b[p + 6], b[p + 7], 0]) as usize;
    if version != 0 {
        return Err("chunk version".into());
    }
    if scheme > 2 {
        return Err("scheme".into());
    }
    if ulen > MAX_CHUNK || clen > 2 * MAX_CHUNK {
        return Err("chunk length over limit".into());
    }
    if p + 8 + clen > b.len() {
        return Err("eof in chunk data".into());
    }
    let payload = &b[p + 8..p + 8 + clen];
    let data = match scheme {
        0 => payload.to_vec(),
        1 | 2 => {
            let mut dec = lz4_flex::frame::FrameDecoder::new(payload);
            let mut out = Vec::new();
            // bound the output: anything beyond ulen+1 is already a mismatch
            let mut lim = (&mut dec).take(ulen as u64 + 1);
            lim.read_to_end(&mut out).map_err(|e| format!("lz4: {e}"))?;
            if scheme == 2 {
                bg4_regroup_ref(&out)
            } else {
                out
            }
        },
        _ => unreachable!(),
    };
    if data.len() != ulen {
        return Err("uncompressed length mismatch".into());
    }
    Ok((data, p + 8 + clen))
}

/// Parse a complete serialized xorb with a v1 footer, independently of cas_object.
/// Succeeds only for a fully self-consistent object.
pub fn ref_parse_xorb_v1(b: &[u8]) -> Result<RefXorb, String> {
    if b.len() < 4 {
        return Err("too short".into());
    }
    let info_len = u32::from_le_bytes([b[b.len() - 4], b[b.len() - 3], b[b.len() - 2], b[b.len() - 1]]) as usize;
    if info_len + 4 > b.len() {
        return Err("info_len too large".into());
    }
    let fstart = b.len() - 4 - info_len;
    let mut p = fstart;
    if rd_bytes(b, &mut p, 7)? != b"XETBLOB" {
        return Err("ident".into());
    }
    if rd_bytes(b, &mut p, 1)?[0] != 1 {
        return Err("version".into());
    }
    let mut cashash = [0u8; 32];
    cashash.copy_from_slice(rd_bytes(b, &mut p, 32)?);
    let hash_section_start = p;
    if rd_bytes(b, &mut p, 7)? != b"XBLBHSH" {
        return Err("hash ident".into());
    }
    if rd_bytes(b, &mut p, 1)?[0] != 0 {
        return Err("hash version".into());
    }
    let n2 = rd_u32(b, &mut p)? as usize;
    if n2 > (b.len() / 32) + 1 {
        return Err("num chunks inflated".into());
    }
    let mut hashes = Vec::with_capacity(n2);
    for _ in 0..n2 {
        let mut h = [0u8; 32];
        h.copy_from_slice(rd_bytes(b, &mut p, 32)?);
        hashes.push(h);
    }
    let bnd_section_start = p;
    if rd_bytes(b, &mut p, 7)? != b"XBLBBND" {
        return Err("bnd ident".into());
    }
    if rd_bytes(b, &mut p, 1)?[0] != 1 {
        return Err("bnd version".into());
    }
    let n3 = rd_u32(b, &mut p)? as usize;
    if n3 != n2 {
        return Err("n3".into());
    }
    let mut bnds = Vec::with_capacity(n3);
    for _ in 0..n3 {
        bnds.push(rd_u32(b, &mut p)?);
    }
    let mut unp = Vec::with_capacity(n3);
    for _ in 0..n3 {
        unp.push(rd_u32(b, &mut p)?);
    }
    let n = rd_u32(b, &mut p)? as usize;
    if n != n2 {
        return Err("n".into());
    }
    let hoff = rd_u32(b, &mut p)? as usize;
    let boff = rd_u32(b, &mut p)? as usize;
    rd_bytes(b, &mut p, 16)?;
    if p != b.len() - 4 {
        return Err("footer length".into());
    }
    if p - hash_section_start != hoff || p - bnd_section_start != boff {
        return Err("section offsets".into());
    }
    // chunks
    let mut pos = 0usize;
    let mut chunks = Vec::with_capacity(n);
    let mut boundaries = Vec::with_capacity(n);
    let mut chunk_hashes = Vec::with_capacity(n);
    let mut leaves = Vec::with_capacity(n);
    let mut unpacked = 0u32;
    for i in 0..n {
        if pos >= fstart {
            return Err("chunk runs into footer".into());
        }
        let (data, np) = ref_decode_chunk(&b[..fstart], pos)?;
        pos = np;
        let h = leaf_hash(&data);
        if h != hashes[i] {
            return Err(format!("chunk {i} hash mismatch"));
        }
        if bnds[i] as usize != pos {
            return Err(format!("chunk {i} boundary mismatch"));
        }
        unpacked += data.len() as u32;
        if unp[i] != unpacked {
            return Err(format!("chunk {i} unpacked offset mismatch"));
        }
        leaves.push((h, data.len() as u64));
        chunk_hashes.push(h);
        boundaries.push(pos as u32);
        chunks.push(data);
    }
    if pos != fstart {
        return Err("gap between chunks and footer".into());
    }
    if n == 0 {
        return Err("no chunks".into());
    }
    let computed = xorb_hash(&leaves);
    if computed != cashash {
        return Err("xorb hash mismatch".into());
    }
    Ok(RefXorb {
        footer_hash: Some(cashash),
        footer_chunk_hashes: Some(hashes),
        footer_boundaries: Some(bnds),
        footer_unpacked: Some(unp),
        chunks,
        boundaries,
        computed_hash: computed,
        chunk_hashes,
    })
}

/// Decode a bare chunk stream (no footer) completely; Err if any byte is not part of a valid chunk.
pub fn ref_parse_chunk_stream(b: &[u8]) -> Result<RefXorb, String> {
    let mut pos = 0usize;
    let mut chunks = Vec::new();
    let mut boundaries = Vec::new();
    let mut chunk_hashes = Vec::new();
    let mut leaves = Vec::new();
    while pos < b.len() {
        let (data, np) = ref_decode_chunk(b, pos)?;
        pos = np;
        let h = leaf_hash(&data);
        leaves.push((h, data.len() as u64));
        chunk_hashes.push(h);
        boundaries.push(pos as u32);
        chunks.push(data);
    }
    if chunks.is_empty() {
        return Err("no chunks".into());
    }
    Ok(RefXorb {
        footer_hash: None,
        footer_chunk_hashes: None,
        footer_boundaries: None,
        footer_unpacked: None,
        computed_hash: xorb_hash(&leaves),
        chunks,
        boundaries,
        chunk_hashes,
    })
}
