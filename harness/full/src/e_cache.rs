//! C12 (a cache hit returns exactly what was put) and C13 (accounting exact, capacity bound):
//! sequential histories with re-opens, on-disk damage before a re-open, and concurrent schedules
//! steered through the chunk_cache hook points.
use std::collections::{BTreeMap, BTreeSet, HashMap, HashSet};
use std::path::{Path, PathBuf};
use std::sync::atomic::{AtomicU64, Ordering};
use std::sync::{Arc, Condvar, Mutex};

use base64::engine::general_purpose::URL_SAFE;
use base64::Engine;
use cas_types::{ChunkRange, Key};
use chunk_cache::{CacheConfig, ChunkCache, DiskCache};
use merklehash::MerkleHash;
use xvcommon::{case_iter, json, witness_base, Args, Report, Rng, Value};

type Fail = (String, String);
fn fail<T>(sig: &str, msg: impl Into<String>) -> Result<T, Fail> {
    Err((sig.to_string(), msg.into()))
}

/// ground truth of one key (xorb): cumulative chunk offsets and bytes (unique random content)
#[derive(Clone)]
pub struct TruthKey {
    pub key: Key,
    pub offs: Vec<u32>,
    pub data: Vec<u8>,
}

impl TruthKey {
    pub fn gen(rng: &mut Rng, n_chunks: usize, max_chunk: usize) -> Self {
        let mut offs = vec![0u32];
        for _ in 0..n_chunks {
            let l = rng.urange(1, max_chunk) as u32;
            offs.push(offs.last().unwrap() + l);
        }
        let data = rng.bytes(*offs.last().unwrap() as usize);
        let mut h = [0u8; 32];
        rng.fill(&mut h);
        // mostly the production prefix; sometimes an empty, 1-byte, non-ASCII or long one (all legal Key values)
        let prefix = match rng.usize_below(12) {
            0 | 1 => String::new(),
            2 => "x".to_string(),
            3 => "pré/fix-ü".to_string(),
            4 => "p".repeat(rng.urange(2, 60)),
            _ => "default".to_string(),
        };
        TruthKey {
            key: Key {
                prefix,
                hash: MerkleHash::from(&h),
            },
            offs,
            data,
        }
    }
    pub fn n(&self) -> usize {
        self.offs.len() - 1
    }
    pub fn slice(&self, a: usize, b: usize) -> (Vec<u32>, &[u8]) {
        let o: Vec<u32> = self.offs[a..=b].iter().map(|x| x - self.offs[a]).collect();
        (o, &self.data[self.offs[a] as usize..self.offs[b] as usize])
    }
    /// length of the cache file holding range [a,b)
    pub fn item_len(&self, a: usize, b: usize) -> u64 {
        ((b - a + 1 + 1) * 4) as u64 + (self.offs[b] - self.offs[a]) as u64
    }
}

fn cfg(dir: &Path, cap: u64) -> CacheConfig {
    CacheConfig {
        cache_directory: dir.to_path_buf(),
        cache_size: cap,
    }
}

/// C12 oracle on one get
fn judge_get(t: &TruthKey, a: usize, b: usize, r: &Result<Option<chunk_cache::CacheRange>, chunk_cache::error::ChunkCacheError>) -> Result<bool, Fail> {
    match r {
        Ok(Some(c)) => {
            if a >= b || b > t.n() {
                return fail("cache-hit-wrong-data", format!("hit for [{a},{b}), a range that was never put (the key has {} chunks)", t.n()));
            }
            let (o, d) = t.slice(a, b);
            if c.data.as_ref() != d {
                return fail("cache-hit-wrong-data", format!("hit for [{a},{b}) returned {} bytes that differ from what was put ({} bytes)", c.data.len(), d.len()));
            }
            if c.offsets.as_ref() != o.as_slice() {
                return fail("cache-hit-wrong-offsets", format!("hit for [{a},{b}) returned wrong chunk offsets"));
            }
            if c.range.start as usize != a || c.range.end as usize != b {
                return fail("cache-hit-wrong-range", "hit reports a different range than requested");
            }
            Ok(true)
        },
        _ => Ok(false),
    }
}

/// all regular files below root/<prefix>/<key>/ that do not look like temp files
pub fn walk_cache_files(root: &Path) -> Vec<(PathBuf, u64)> {
    let mut out = Vec::new();
    let Ok(l1) = std::fs::read_dir(root) else {
        return out;
    };
    for p in l1.flatten() {
        if !p.path().is_dir() {
            continue;
        }
        let Ok(l2) = std::fs::read_dir(p.path()) else {
            continue;
        };
        for k in l2.flatten() {
            if !k.path().is_dir() {
                continue;
            }
            let Ok(l3) = std::fs::read_dir(k.path()) else {
                continue;
            };
            for f in l3.flatten() {
                let name = f.file_name().to_string_lossy().to_string();
                if name.starts_with('.') {
                    continue;
                }
                if let Ok(md) = f.metadata() {
                    if md.is_file() {
                        // only names that parse as cache items count as cache files
                        if let Ok(buf) = URL_SAFE.decode(name.as_bytes()) {
                            if buf.len() == 20 {
                                out.push((f.path(), md.len()));
                            }
                        }
                    }
                }
            }
        }
    }
    out
}

/// C13 oracle at a quiescent point.  `read_back`: get every tracked entry first.
fn judge_accounting(cache: &DiskCache, root: &Path, cap: u64, read_back: bool, strict_capacity: bool) -> Result<(usize, u64), Fail> {
    if read_back {
        let (_, _, items) = cache.verif_snapshot().map_err(|e| ("snapshot".to_string(), format!("{e}")))?;
        for (key, range, _, _, _) in &items {
            let _ = cache.get(key, range);
        }
    }
    let (n, bytes, items) = cache.verif_snapshot().map_err(|e| ("snapshot".to_string(), format!("{e}")))?;
    let pn = cache.num_items().map_err(|e| ("snapshot".to_string(), format!("{e}")))?;
    let pb = cache.total_bytes().map_err(|e| ("snapshot".to_string(), format!("{e}")))?;
    if pn != n || pb != bytes {
        return fail("acct-public-vs-snapshot", "public counters differ from the snapshot taken under the lock");
    }
    if n != items.len() {
        return fail("acct-num-items", format!("num_items {} != tracked entries {}", n, items.len()));
    }
    let sum: u64 = items.iter().map(|i| i.2).sum();
    if bytes != sum {
        return fail("acct-total-bytes", format!("total_bytes {} != sum of tracked lengths {} ({} entries)", bytes, sum, items.len()));
    }
    if strict_capacity && bytes > cap {
        return fail("acct-over-capacity", format!("total_bytes {bytes} > capacity {cap} at a quiescent point"));
    }
    let tracked: HashSet<PathBuf> = items.iter().map(|i| i.4.clone()).collect();
    let disk = walk_cache_files(root);
    for (p, _) in &disk {
        if !tracked.contains(p) {
            return fail("acct-untracked-file", format!("cache file {:?} on disk belongs to no tracked entry", p.strip_prefix(root).unwrap_or(p)));
        }
    }
    if read_back {
        // Entries whose file a racing deletion removed are dropped when they are read.  An entry can
        // only be read through get(key, range), which serves the first tracked entry covering the
        // range; a file-less entry that is shadowed by another covering entry can therefore not be
        // reached (get keeps hitting the other one) and stays tracked.  Such entries have not "been
        // read back" in the sense of the property and are left out of the comparison; a file-less
        // entry that is NOT shadowed must be gone by now.
        let mut unreachable_n = 0usize;
        let mut unreachable_bytes = 0u64;
        for (key, range, len, _, path) in &items {
            if !path.exists() {
                match cache.get(key, range) {
                    Ok(Some(_)) => {
                        unreachable_n += 1;
                        unreachable_bytes += *len;
                    },
                    _ => {
                        let (_, _, again) = cache.verif_snapshot().map_err(|e| ("snapshot".to_string(), format!("{e}")))?;
                        if again.iter().any(|i| i.0 == *key && i.1 == *range && i.4 == *path) {
                            return fail("acct-stale-entry-kept", "a tracked entry without file was read (miss) but not dropped");
                        }
                        // dropped by this read: compare against a fresh snapshot
                        return judge_accounting(cache, root, cap, true, strict_capacity);
                    },
                }
            }
        }
        let dsum: u64 = disk.iter().map(|d| d.1).sum();
        if disk.len() != n - unreachable_n || dsum != bytes - unreachable_bytes {
            return fail(
                "acct-disk-totals",
                format!("after read-back: tracked ({n} items, {bytes} bytes; {unreachable_n} shadowed file-less entries of {unreachable_bytes} bytes) != on disk ({} files, {dsum} bytes)", disk.len()),
            );
        }
    }
    Ok((n, bytes))
}

// ------------------------------------------------------------------------------------------------
// sequential histories (C12 part 1, C13 sequential)

pub fn run_seq(args: &Args, rep: &mut Report) {
    for (k, mut rng) in case_iter(args, 0xCAC1, 60) {
        let nk = rng.urange(1, 6);
        let keys: Vec<TruthKey> = (0..nk)
            .map(|_| {
                let n = rng.urange(1, 40);
                let mc = *rng.pick(&[8usize, 60, 300]);
                TruthKey::gen(&mut rng, n, mc)
            })
            .collect();
        let max_item: u64 = keys.iter().map(|t| t.item_len(0, t.n())).max().unwrap();
        let total_all: u64 = keys.iter().map(|t| t.item_len(0, t.n())).sum();
        let cap = match rng.below(4) {
            0 => max_item,
            1 => max_item + rng.below(max_item + 1),
            2 => total_all * 2,
            _ => rng.range(max_item, total_all.max(max_item) + 10),
        };
        let dir = tempfile::tempdir().unwrap();
        let w = |what: &str, hist: &Vec<String>| {
            let mut w = witness_base(args, "cache_seq", k);
            w["capacity"] = json!(cap);
            w["keys"] = json!(keys.iter().map(|t| t.n()).collect::<Vec<_>>());
            w["history_tail"] = json!(hist.iter().rev().take(12).rev().collect::<Vec<_>>());
            w["what"] = json!(what);
            w
        };
        let mut hist: Vec<String> = Vec::new();
        let mut put_ranges: Vec<(usize, usize, usize)> = Vec::new();
        let (mut hits, mut misses, mut evict_seen, mut reopens) = (0u64, 0u64, false, 0u64);
        let res = xvcommon::catch(|| -> Result<(), (String, String, &'static str)> {
            let c12 = |e: Fail| (e.0, e.1, "C12");
            let c13 = |e: Fail| (e.0, e.1, "C13");
            let mut cache = DiskCache::initialize(&cfg(dir.path(), cap)).map_err(|e| ("cache-init-error".to_string(), format!("{e}"), "C12"))?;
            let steps = rng.urange(5, 60);
            for _ in 0..steps {
                match rng.below(10) {
                    0..=4 => {
                        let ki = rng.usize_below(nk);
                        let t = &keys[ki];
                        // overlapping / nested / adjacent / identical ranges
                        let (a, b) = if !put_ranges.is_empty() && rng.chance(1, 3) {
                            let p = *rng.pick(&put_ranges);
                            if p.0 == ki {
                                match rng.below(4) {
                                    0 => (p.1, p.2),
                                    1 => (p.1.saturating_sub(1), (p.2 + 1).min(t.n())),
                                    2 => (p.2.min(t.n() - 1), t.n()),
                                    _ => (p.1, rng.urange(p.1 + 1, p.2)),
                                }
                            } else {
                                let a = rng.usize_below(t.n());
                                (a, rng.urange(a + 1, t.n()))
                            }
                        } else {
                            let a = rng.usize_below(t.n());
                            (a, rng.urange(a + 1, t.n()))
                        };
                        if a >= b {
                            continue;
                        }
                        if t.item_len(a, b) > cap {
                            continue;
                        }
                        let (o, d) = t.slice(a, b);
                        let before = cache.num_items().unwrap_or(0);
                        let r = cache.put(&t.key, &ChunkRange { start: a as u32, end: b as u32 }, &o, d);
                        hist.push(format!("put k{ki}[{a},{b}) -> {}", if r.is_ok() { "ok".to_string() } else { format!("{:?}", r.as_ref().err()) }));
                        if r.is_ok() {
                            put_ranges.push((ki, a, b));
                            let tb = cache.total_bytes().unwrap_or(0);
                            if tb > cap {
                                return Err(("acct-over-capacity".into(), format!("total_bytes {tb} > capacity {cap} after a put returned"), "C13"));
                            }
                            if cache.num_items().unwrap_or(0) < before {
                                evict_seen = true;
                            }
                        }
                    },
                    5..=7 => {
                        let ki = rng.usize_below(nk);
                        let t = &keys[ki];
                        let a = rng.usize_below(t.n());
                        let b = rng.urange(a + 1, t.n());
                        let r = cache.get(&t.key, &ChunkRange { start: a as u32, end: b as u32 });
                        if judge_get(t, a, b, &r).map_err(c12)? {
                            hits += 1;
                        } else {
                            misses += 1;
                        }
                    },
                    8 => {
                        drop(cache);
                        cache = DiskCache::initialize(&cfg(dir.path(), cap)).map_err(|e| ("cache-reopen-error".to_string(), format!("re-open failed: {e}"), "C12"))?;
                        hist.push("reopen".into());
                        reopens += 1;
                    },
                    _ => {
                        // delete one cache file while open
                        let files = walk_cache_files(dir.path());
                        if !files.is_empty() {
                            let f = rng.pick(&files).0.clone();
                            let _ = std::fs::remove_file(&f);
                            hist.push("delete-file-while-open".into());
                            // tracked-but-deleted entries are tolerated until read back
                            judge_accounting(&cache, dir.path(), cap, true, true).map_err(c13)?;
                        }
                    },
                }
                // every covered sub-range (sampled) must read back correctly
                for _ in 0..4 {
                    if put_ranges.is_empty() {
                        break;
                    }
                    let (ki, a, b) = *rng.pick(&put_ranges);
                    let a2 = rng.urange(a, b - 1);
                    let b2 = rng.urange(a2 + 1, b);
                    let t = &keys[ki];
                    let r = cache.get(&t.key, &ChunkRange { start: a2 as u32, end: b2 as u32 });
                    if judge_get(t, a2, b2, &r).map_err(c12)? {
                        hits += 1;
                    } else {
                        misses += 1;
                    }
                }
                judge_accounting(&cache, dir.path(), cap, false, true).map_err(c13)?;
            }
            judge_accounting(&cache, dir.path(), cap, true, true).map_err(c13)?;
            drop(cache);
            let cache = DiskCache::initialize(&cfg(dir.path(), cap)).map_err(|e| ("cache-reopen-error".to_string(), format!("{e}"), "C12"))?;
            judge_accounting(&cache, dir.path(), cap, false, true).map_err(c13)?;
            judge_accounting(&cache, dir.path(), cap, true, true).map_err(c13)?;
            Ok(())
        });
        let sig = format!("seq|k{nk}|cap{}|ev{}|ro{}|h{}", if cap <= max_item * 2 { "tight" } else if cap >= total_all { "all" } else { "mid" }, evict_seen as u8, (reopens > 0) as u8, (hits > 0) as u8);
        match res {
            Ok(Ok(())) => {
                for p in ["C12", "C13"] {
                    rep.case(p, if hits > 0 { Some(sig.clone()) } else { None });
                }
                rep.count("C12", "seq_hits_judged", hits);
                rep.count("C12", "seq_misses", misses);
                rep.count("C12", "seq_reopens", reopens);
                rep.count("C13", "seq_histories", 1);
                if evict_seen {
                    rep.count("C13", "seq_histories_with_eviction", 1);
                }
                for p in ["C12", "C13"] {
                    if rep.wants_sample(p) {
                        rep.sample(p, w("sample", &hist));
                    }
                }
            },
            Ok(Err((s, m, p))) => {
                rep.violation(p, &s, &m, w(&m, &hist));
                rep.case(p, None);
            },
            Err(pn) => {
                rep.violation("C12", "cache-panic", &pn, w(&pn, &hist));
                rep.case("C12", None);
            },
        }
    }
}

// ------------------------------------------------------------------------------------------------
// damage before re-open (C12 part 2)

fn key_dir_name(key: &Key) -> (String, String) {
    let mut buf = key.hash.as_bytes().to_vec();
    buf.extend_from_slice(key.prefix.as_bytes());
    let enc = URL_SAFE.encode(&buf);
    (enc[..2].to_string(), enc)
}

fn item_name(a: u32, b: u32, len: u64, crc: u32) -> String {
    let mut buf = Vec::with_capacity(20);
    buf.extend_from_slice(&a.to_le_bytes());
    buf.extend_from_slice(&b.to_le_bytes());
    buf.extend_from_slice(&len.to_le_bytes());
    buf.extend_from_slice(&crc.to_le_bytes());
    URL_SAFE.encode(buf)
}

fn parse_item_name(name: &str) -> Option<(u32, u32, u64, u32)> {
    let b = URL_SAFE.decode(name.as_bytes()).ok()?;
    if b.len() != 20 {
        return None;
    }
    Some((
        u32::from_le_bytes(b[0..4].try_into().ok()?),
        u32::from_le_bytes(b[4..8].try_into().ok()?),
        u64::from_le_bytes(b[8..16].try_into().ok()?),
        u32::from_le_bytes(b[16..20].try_into().ok()?),
    ))
}

const DAMAGE_KINDS: [&str; 19] = [
    "rename-range-end",
    "burst-all-small-reopen",
    "burst-header",
    "burst-data",
    "truncate",
    "extend",
    "delete",
    "rename-junk",
    "swap-two-items",
    "rename-range-shift",
    "rename-len-crc",
    "move-to-other-key",
    "junk-file-root",
    "junk-dir-root",
    "junk-in-prefix",
    "junk-in-key",
    "short-key-dir",
    "foreign-valid-names",
    "keydir-under-wrong-prefix",
];

fn apply_damage(rng: &mut Rng, root: &Path, kind: &str, keys: &[TruthKey]) -> String {
    let files = walk_cache_files(root);
    let pick_file = |rng: &mut Rng| -> Option<PathBuf> {
        if files.is_empty() {
            None
        } else {
            Some(rng.pick(&files).0.clone())
        }
    };
    match kind {
        "burst-header" | "burst-data" => {
            if let Some(f) = pick_file(rng) {
                let Ok(mut b) = std::fs::read(&f) else { return kind.to_string() };
                if b.len() < 8 { return kind.to_string(); }
                let hl = (u32::from_le_bytes(b[0..4].try_into().unwrap()) as usize + 1) * 4;
                let (lo, hi) = if kind == "burst-header" { (0, hl.min(b.len())) } else { (hl.min(b.len() - 1), b.len()) };
                if hi > lo {
                    // one burst of at most 32 bits: flip bits inside a window starting at a random bit
                    let start_bit = rng.range((lo * 8) as u64, (hi * 8 - 1) as u64);
                    let width = rng.range(1, 32).min((hi * 8) as u64 - start_bit);
                    let mut flipped = false;
                    for i in 0..width {
                        if i == 0 || i == width - 1 || rng.chance(1, 2) {
                            let bit = start_bit + i;
                            b[(bit / 8) as usize] ^= 1 << (bit % 8);
                            flipped = true;
                        }
                    }
                    if flipped {
                        let _ = std::fs::write(&f, &b);
                    }
                    return format!("{kind} bits [{start_bit},+{width}) of {} byte file", b.len());
                }
            }
            kind.to_string()
        },
        "truncate" => {
            if let Some(f) = pick_file(rng) {
                let Ok(b) = std::fs::read(&f) else { return kind.to_string() };
                let l = rng.usize_below(b.len());
                let _ = std::fs::write(&f, &b[..l]);
                return format!("truncate {} -> {l}", b.len());
            }
            kind.into()
        },
        "extend" => {
            if let Some(f) = pick_file(rng) {
                let Ok(mut b) = std::fs::read(&f) else { return kind.to_string() };
                let extra = rng.urange(1, 40);
                b.extend_from_slice(&rng.bytes(extra));
                let _ = std::fs::write(&f, &b);
                return format!("extend by {extra}");
            }
            kind.into()
        },
        "delete" => {
            if let Some(f) = pick_file(rng) {
                let _ = std::fs::remove_file(&f);
            }
            kind.into()
        },
        "rename-junk" => {
            if let Some(f) = pick_file(rng) {
                let nn = *rng.pick(&["x", "not-base64-!!", "AAAA", "AAAAAAAAAAAAAAAAAAAAAAAAAAAAAAAA", ".hidden"]);
                let _ = std::fs::rename(&f, f.parent().unwrap().join(nn));
            }
            kind.into()
        },
        "swap-two-items" => {
            // two items of the same key directory exchange their file names
            let mut by_dir: HashMap<PathBuf, Vec<PathBuf>> = HashMap::new();
            for (f, _) in &files {
                by_dir.entry(f.parent().unwrap().to_path_buf()).or_default().push(f.clone());
            }
            let cands: Vec<&Vec<PathBuf>> = by_dir.values().filter(|v| v.len() >= 2).collect();
            if !cands.is_empty() {
                let v = *rng.pick(&cands);
                let (a, b) = (&v[0], &v[1]);
                let tmp = a.parent().unwrap().join(".swap");
                let _ = std::fs::rename(a, &tmp);
                let _ = std::fs::rename(b, a);
                let _ = std::fs::rename(&tmp, b);
                return "swap-two-items (done)".into();
            }
            kind.into()
        },
        "rename-range-shift" => {
            if let Some(f) = pick_file(rng) {
                let name = f.file_name().unwrap().to_string_lossy().to_string();
                if let Some((a, b, len, crc)) = parse_item_name(&name) {
                    let d = rng.range(1, 3) as u32;
                    let nn = item_name(a + d, b + d, len, crc);
                    let _ = std::fs::rename(&f, f.parent().unwrap().join(nn));
                    return format!("rename-range-shift [{a},{b}) -> [{},{})", a + d, b + d);
                }
            }
            kind.into()
        },
        "rename-range-end" => {
            // same start, length and checksum; the end of the chunk range in the name moved by 1..2 either way
            if let Some(f) = pick_file(rng) {
                let name = f.file_name().unwrap().to_string_lossy().to_string();
                if let Some((a, b, len, crc)) = parse_item_name(&name) {
                    let d = rng.range(1, 2) as u32;
                    let nb = if rng.chance(1, 2) || b - a <= d { b + d } else { b - d };
                    let nn = item_name(a, nb, len, crc);
                    let _ = std::fs::rename(&f, f.parent().unwrap().join(nn));
                    return format!("rename-range-end [{a},{b}) -> [{a},{nb})");
                }
            }
            kind.into()
        },
        "burst-all-small-reopen" => {
            // one burst of <= 32 bits in the data part of every cache file (the caller re-opens with a small capacity,
            // so that some of the damaged files stay on disk without being tracked)
            for (f, _) in &files {
                let Ok(mut b) = std::fs::read(f) else { continue };
                if b.len() < 8 { continue; }
                let hl = (u32::from_le_bytes(b[0..4].try_into().unwrap()) as usize + 1) * 4;
                if hl >= b.len() { continue; }
                let start_bit = rng.range((hl * 8) as u64, (b.len() * 8 - 1) as u64);
                let width = rng.range(1, 32).min((b.len() * 8) as u64 - start_bit);
                for i in 0..width {
                    if i == 0 || i == width - 1 || rng.chance(1, 2) {
                        let bit = start_bit + i;
                        b[(bit / 8) as usize] ^= 1 << (bit % 8);
                    }
                }
                let _ = std::fs::write(f, &b);
            }
            kind.into()
        },
        "rename-len-crc" => {
            if let Some(f) = pick_file(rng) {
                let name = f.file_name().unwrap().to_string_lossy().to_string();
                if let Some((a, b, len, crc)) = parse_item_name(&name) {
                    let nn = if rng.chance(1, 2) { item_name(a, b, len + 1, crc) } else { item_name(a, b, len, crc ^ 1) };
                    let _ = std::fs::rename(&f, f.parent().unwrap().join(nn));
                }
            }
            kind.into()
        },
        "move-to-other-key" => {
            if keys.len() >= 2 {
                if let Some(f) = pick_file(rng) {
                    let other = rng.pick(keys);
                    let (p, kd) = key_dir_name(&other.key);
                    let dst_dir = root.join(p).join(kd);
                    if dst_dir != f.parent().unwrap() {
                        let _ = std::fs::create_dir_all(&dst_dir);
                        let _ = std::fs::rename(&f, dst_dir.join(f.file_name().unwrap()));
                        return "move-to-other-key (done)".into();
                    }
                }
            }
            kind.into()
        },
        "junk-file-root" => {
            let _ = std::fs::write(root.join(*rng.pick(&["junk", "ab", ".DS_Store", "AAAA"])), rng.bytes(10));
            kind.into()
        },
        "junk-dir-root" => {
            let n = *rng.pick(&["x", "abc", "a", "zz", "--"]);
            let _ = std::fs::create_dir_all(root.join(n).join("inner"));
            let _ = std::fs::write(root.join(n).join("inner").join("file"), b"junk");
            kind.into()
        },
        "junk-in-prefix" => {
            // a file and odd directories inside an existing (or new) 2-letter prefix directory
            let pd = files.first().map(|f| f.0.parent().unwrap().parent().unwrap().to_path_buf()).unwrap_or_else(|| root.join("ab"));
            let _ = std::fs::create_dir_all(&pd);
            let _ = std::fs::write(pd.join("stray-file"), b"junk");
            for n in ["not base64", "AAAA", "abcd", "a"] {
                let _ = std::fs::create_dir_all(pd.join(n));
            }
            kind.into()
        },
        "junk-in-key" => {
            if let Some(f) = pick_file(rng) {
                let kd = f.parent().unwrap();
                let _ = std::fs::write(kd.join("zzz-not-an-item"), b"junk");
                let _ = std::fs::write(kd.join(".leftover.tmp"), b"partial");
                let _ = std::fs::create_dir_all(kd.join("subdir"));
            }
            kind.into()
        },
        "short-key-dir" => {
            // a key directory whose name decodes to fewer than 32 bytes
            for (p, n) in [("ab", "abcd"), ("AA", "AAAA"), ("QU", "QUJD")] {
                let d = root.join(p).join(n);
                let _ = std::fs::create_dir_all(&d);
                let _ = std::fs::write(d.join(item_name(0, 1, 12, 0)), [0u8; 12]);
            }
            kind.into()
        },
        "foreign-valid-names" => {
            // valid-looking key directory and item name, content unrelated
            let t = TruthKey::gen(rng, 3, 10);
            let (p, kd) = key_dir_name(&t.key);
            let d = root.join(p).join(kd);
            let _ = std::fs::create_dir_all(&d);
            let content = rng.bytes(40);
            let _ = std::fs::write(d.join(item_name(0, 3, 40, 12345)), &content);
            // and a planted item inside a real key directory claiming a range, with a wrong crc
            if let Some(f) = pick_file(rng) {
                let c2 = rng.bytes(30);
                let _ = std::fs::write(f.parent().unwrap().join(item_name(0, 2, 30, 777)), &c2);
            }
            kind.into()
        },
        "keydir-under-wrong-prefix" => {
            if let Some(f) = pick_file(rng) {
                let kd = f.parent().unwrap().to_path_buf();
                let wrong = root.join("zz");
                let _ = std::fs::create_dir_all(&wrong);
                let _ = std::fs::rename(&kd, wrong.join(kd.file_name().unwrap()));
            }
            kind.into()
        },
        _ => kind.into(),
    }
}

pub fn run_fault(args: &Args, rep: &mut Report) {
    const P: &str = "C12";
    for (k, mut rng) in case_iter(args, 0xCAF2, 170) {
        let kind = DAMAGE_KINDS[(k as usize) % DAMAGE_KINDS.len()];
        let nk = rng.urange(2, 5);
        let keys: Vec<TruthKey> = (0..nk)
            .map(|_| {
                let n = rng.urange(2, 20);
                let mc = *rng.pick(&[6usize, 50, 200]);
                TruthKey::gen(&mut rng, n, mc)
            })
            .collect();
        let cap = 10_000_000u64;
        let dir = tempfile::tempdir().unwrap();
        let mut put_ranges: Vec<(usize, usize, usize)> = Vec::new();
        {
            let cache = DiskCache::initialize(&cfg(dir.path(), cap)).unwrap();
            for (ki, t) in keys.iter().enumerate() {
                let npr = rng.urange(1, 4);
                for _ in 0..npr {
                    let a = rng.usize_below(t.n());
                    let b = rng.urange(a + 1, t.n());
                    let (o, d) = t.slice(a, b);
                    if cache.put(&t.key, &ChunkRange { start: a as u32, end: b as u32 }, &o, d).is_ok() {
                        put_ranges.push((ki, a, b));
                    }
                }
            }
        }
        let n_damage = rng.urange(1, 3);
        let mut applied = Vec::new();
        for i in 0..n_damage {
            // one damage kind per case (possibly several instances) so that a violation is attributed
            // to exactly that kind; a single burst per case (CRC-32 guarantees detection of one burst
            // of <= 32 bits, not of two bursts in the same file)
            if i > 0 && kind.starts_with("burst") {
                break;
            }
            if i > 0 && kind == "rename-range-end" && rng.chance(1, 2) {
                break;
            }
            applied.push(apply_damage(&mut rng, dir.path(), kind, &keys));
        }
        let w = |what: &str| {
            let mut w = witness_base(args, "cache_fault", k);
            w["damage"] = json!(applied);
            w["keys"] = json!(keys.iter().map(|t| t.n()).collect::<Vec<_>>());
            w["what"] = json!(what);
            w
        };
        // what the directory now claims to hold (ranges in the file names), per key directory
        let mut named: Vec<(PathBuf, u32, u32)> = Vec::new();
        let mut disk_total = 0u64;
        for (f, l) in walk_cache_files(dir.path()) {
            disk_total += l;
            if let Some((a, b, _, _)) = parse_item_name(&f.file_name().unwrap().to_string_lossy()) {
                named.push((f.parent().unwrap().to_path_buf(), a, b));
            }
        }
        let reopen_cap = if kind == "burst-all-small-reopen" { rng.range(1, (disk_total / 2).max(1)) } else { cap };
        let res = xvcommon::catch(|| -> Result<(u64, u64), Fail> {
            let cache = match DiskCache::initialize(&cfg(dir.path(), reopen_cap)) {
                Ok(c) => c,
                Err(_) => return Ok((0, 0)), // an error on re-open is allowed
            };
            let (mut hits, mut misses) = (0u64, 0u64);
            for (ki, t) in keys.iter().enumerate() {
                // everything that was put, every sub-range of it (small n) and a few other ranges
                let mut qs: Vec<(usize, usize)> = Vec::new();
                for (pk, a, b) in &put_ranges {
                    if *pk == ki {
                        qs.push((*a, *b));
                        for _ in 0..4 {
                            let a2 = rng.urange(*a, *b - 1);
                            qs.push((a2, rng.urange(a2 + 1, *b)));
                        }
                    }
                }
                for _ in 0..6 {
                    let a = rng.usize_below(t.n());
                    qs.push((a, rng.urange(a + 1, t.n())));
                }
                // exactly the ranges named by the files now in this key's directory, and their ends
                let (p2, kd) = key_dir_name(&t.key);
                let kdir = dir.path().join(p2).join(kd);
                for (d, a, b) in &named {
                    if *d == kdir && a < b && (*b as u64) < (1 << 20) {
                        let (a, b) = (*a as usize, *b as usize);
                        qs.push((a, b));
                        qs.push((b - 1, b));
                        if b - a >= 2 {
                            qs.push((a, b - 1));
                            qs.push((b - 2, b));
                        }
                    }
                }
                for (a, b) in qs {
                    let r = cache.get(&t.key, &ChunkRange { start: a as u32, end: b as u32 });
                    if judge_get(t, a, b, &r)? {
                        hits += 1;
                    } else {
                        misses += 1;
                    }
                }
            }
            // puts after damage must work and read back
            let n_reput = if kind == "burst-all-small-reopen" { put_ranges.len() } else { 3 };
            for (ki, a, b) in put_ranges.iter().take(n_reput) {
                let t = &keys[*ki];
                let (o, d) = t.slice(*a, *b);
                let _ = cache.put(&t.key, &ChunkRange { start: *a as u32, end: *b as u32 }, &o, d);
                let r = cache.get(&t.key, &ChunkRange { start: *a as u32, end: *b as u32 });
                judge_get(t, *a, *b, &r)?;
            }
            Ok((hits, misses))
        });
        match res {
            Ok(Ok((h, m))) => {
                rep.count(P, "fault_cases", 1);
                rep.count(P, "fault_hits_judged", h);
                rep.count(P, "fault_misses", m);
                rep.count(P, &format!("damage_{kind}"), 1);
                rep.case(P, Some(format!("fault|{kind}|n{n_damage}|h{}", (h > 0) as u8)));
                if rep.wants_sample(P) {
                    rep.sample(P, w("sample"));
                }
            },
            Ok(Err((s, m))) => {
                rep.violation(P, &format!("{s}-after-{kind}"), &m, w(&m));
                rep.case(P, None);
            },
            Err(pn) => {
                rep.violation(P, &format!("cache-panic-after-{kind}"), &format!("panic after on-disk damage: {pn}"), w(&pn));
                rep.case(P, None);
            },
        }
    }
}

// ------------------------------------------------------------------------------------------------
// concurrent schedules (C12 part 3, C13)

/// Steering scheduler: every participating thread blocks at each hook point until it is granted
/// the turn; between points exactly one participating thread runs.
pub struct Steer {
    st: Mutex<SteerState>,
    cv: Condvar,
}

struct SteerState {
    active: BTreeSet<usize>,
    waiting: BTreeMap<usize, &'static str>,
    granted: Option<usize>,
    rng: Rng,
    trace: Vec<(usize, &'static str)>,
    prio: Vec<u64>,
    pct: bool,
    change_points: Vec<usize>,
    steps: usize,
    /// systematic mode: the first choices are dictated by the script, then the first candidate is taken
    script: Option<Vec<usize>>,
    choices: Vec<(usize, usize)>,
}

thread_local! {
    static TID: std::cell::Cell<Option<usize>> = const { std::cell::Cell::new(None) };
}

impl Steer {
    pub fn new(seed: u64, n: usize, pct: bool) -> Arc<Self> {
        let mut rng = Rng::new(seed);
        let prio: Vec<u64> = (0..n).map(|_| rng.next_u64()).collect();
        let change_points: Vec<usize> = (0..2).map(|_| rng.urange(1, 40)).collect();
        Arc::new(Steer {
            st: Mutex::new(SteerState {
                active: (0..n).collect(),
                waiting: BTreeMap::new(),
                granted: None,
                rng,
                trace: Vec::new(),
                prio,
                pct,
                change_points,
                steps: 0,
                script: None,
                choices: Vec::new(),
            }),
            cv: Condvar::new(),
        })
    }
    fn schedule(st: &mut SteerState) {
        if st.granted.is_some() {
            return;
        }
        // grant only when every active thread is parked at a point
        if st.active.is_empty() || st.waiting.len() < st.active.len() {
            return;
        }
        let cands: Vec<usize> = st.waiting.keys().cloned().collect();
        let pick = if let Some(script) = &st.script {
            let step = st.choices.len();
            let idx = if step < script.len() { script[step].min(cands.len() - 1) } else { 0 };
            st.choices.push((idx, cands.len()));
            cands[idx]
        } else if st.pct {
            st.steps += 1;
            if st.change_points.contains(&st.steps) {
                // lower the priority of the currently highest thread
                if let Some(&hi) = cands.iter().max_by_key(|t| st.prio[**t]) {
                    st.prio[hi] = st.rng.next_u64() >> 8;
                }
            }
            *cands.iter().max_by_key(|t| st.prio[**t]).unwrap()
        } else {
            *st.rng.pick(&cands)
        };
        let name = st.waiting.remove(&pick).unwrap();
        st.trace.push((pick, name));
        st.granted = Some(pick);
    }
    pub fn point(&self, name: &'static str) {
        let Some(tid) = TID.with(|t| t.get()) else {
            return;
        };
        let mut st = self.st.lock().unwrap();
        // leaving the running state
        if st.granted == Some(tid) {
            st.granted = None;
        }
        st.waiting.insert(tid, name);
        Self::schedule(&mut st);
        self.cv.notify_all();
        while st.granted != Some(tid) {
            st = self.cv.wait(st).unwrap();
        }
    }
    pub fn enter(&self, tid: usize) {
        TID.with(|t| t.set(Some(tid)));
        self.point("start");
    }
    pub fn leave(&self) {
        let Some(tid) = TID.with(|t| t.get()) else {
            return;
        };
        TID.with(|t| t.set(None));
        let mut st = self.st.lock().unwrap();
        if st.granted == Some(tid) {
            st.granted = None;
        }
        st.active.remove(&tid);
        st.waiting.remove(&tid);
        Self::schedule(&mut st);
        self.cv.notify_all();
    }
    pub fn trace_hash(&self) -> u64 {
        let st = self.st.lock().unwrap();
        let mut h = 0xcbf29ce484222325u64;
        for (t, n) in &st.trace {
            h ^= *t as u64 + 1;
            h = h.wrapping_mul(0x100000001b3);
            for b in n.as_bytes() {
                h ^= *b as u64;
                h = h.wrapping_mul(0x100000001b3);
            }
        }
        h
    }
    pub fn trace_json(&self) -> Value {
        let st = self.st.lock().unwrap();
        json!(st.trace.iter().map(|(t, n)| format!("t{t}:{n}")).collect::<Vec<_>>())
    }
    pub fn trace_len(&self) -> usize {
        self.st.lock().unwrap().trace.len()
    }
    pub fn with_script(seed: u64, n: usize, script: Vec<usize>) -> Arc<Self> {
        let s = Self::new(seed, n, false);
        s.st.lock().unwrap().script = Some(script);
        s
    }
    pub fn choices(&self) -> Vec<(usize, usize)> {
        self.st.lock().unwrap().choices.clone()
    }
}

#[derive(Clone, Debug)]
enum COp {
    Put(usize, usize, usize),
    Get(usize, usize, usize),
}

static POINT_HITS: AtomicU64 = AtomicU64::new(0);

pub fn run_conc(args: &Args, rep: &mut Report) {
    for (k, mut rng) in case_iter(args, 0xC0C3, 60) {
        let maxt = if rng.chance(1, 4) { 8 } else { 4 };
        let nthreads = rng.urange(2, maxt);
        let mode = match rng.below(4) {
            0 => "perturbed",
            1 => "steered-pct",
            _ => "steered-random",
        };
        let scenario = *rng.pick(&["identical-puts", "identical-puts", "overlap-evict", "mixed", "damaged-reopen-gets"]);
        let nk = if scenario == "identical-puts" { 1 } else { rng.urange(1, 3) };
        let keys: Arc<Vec<TruthKey>> = Arc::new(
            (0..nk)
                .map(|_| {
                    let n = rng.urange(3, 16);
                    let mc = *rng.pick(&[10usize, 80]);
                    TruthKey::gen(&mut rng, n, mc)
                })
                .collect(),
        );
        let max_item: u64 = keys.iter().map(|t| t.item_len(0, t.n())).max().unwrap();
        let total_all: u64 = keys.iter().map(|t| t.item_len(0, t.n())).sum();
        let cap = match scenario {
            "overlap-evict" => max_item + rng.below(max_item / 2 + 1),
            _ => {
                if rng.chance(1, 3) {
                    max_item * 2
                } else {
                    total_all * 4
                }
            },
        };
        // per-thread operation lists
        let mut plans: Vec<Vec<COp>> = Vec::new();
        let shared_put = {
            let t = &keys[0];
            let a = rng.usize_below(t.n());
            (0usize, a, rng.urange(a + 1, t.n()))
        };
        for _ in 0..nthreads {
            let mut ops = Vec::new();
            let nops = rng.urange(1, 5);
            for oi in 0..nops {
                let ki = rng.usize_below(nk);
                let t = &keys[ki];
                let a = rng.usize_below(t.n());
                let b = rng.urange(a + 1, t.n());
                match scenario {
                    "damaged-reopen-gets" => {
                        // every thread first reads the (damaged) shared range, then anything
                        if oi == 0 || rng.chance(2, 3) {
                            ops.push(COp::Get(shared_put.0, shared_put.1, shared_put.2));
                        } else {
                            ops.push(COp::Get(ki, a, b));
                        }
                    },
                    "identical-puts" => {
                        if oi == 0 || rng.chance(1, 2) {
                            ops.push(COp::Put(shared_put.0, shared_put.1, shared_put.2));
                        } else if rng.chance(1, 2) {
                            ops.push(COp::Get(shared_put.0, shared_put.1, shared_put.2));
                        } else {
                            ops.push(COp::Put(ki, a, b));
                        }
                    },
                    "overlap-evict" => {
                        if rng.chance(2, 3) {
                            ops.push(COp::Put(ki, a, b));
                        } else {
                            ops.push(COp::Get(ki, a, b));
                        }
                    },
                    _ => {
                        if rng.chance(1, 2) {
                            ops.push(COp::Put(ki, a, b));
                        } else {
                            ops.push(COp::Get(ki, a, b));
                        }
                    },
                }
            }
            plans.push(ops);
        }
        let dir = tempfile::tempdir().unwrap();
        let root = dir.path().to_path_buf();
        if scenario == "damaged-reopen-gets" {
            // entries written by an earlier run, one of them bit-damaged (same length) while closed
            if let Ok(c0) = DiskCache::initialize(&cfg(&root, cap)) {
                let t = &keys[shared_put.0];
                let (o, d) = t.slice(shared_put.1, shared_put.2);
                let _ = c0.put(&t.key, &ChunkRange { start: shared_put.1 as u32, end: shared_put.2 as u32 }, &o, d);
                for (ki, t) in keys.iter().enumerate() {
                    if ki != shared_put.0 {
                        let (o, d) = t.slice(0, t.n());
                        let _ = c0.put(&t.key, &ChunkRange { start: 0, end: t.n() as u32 }, &o, d);
                    }
                }
            }
            let files = walk_cache_files(&root);
            // damage the file of the shared range: it is the one whose name encodes that range
            for (f, _) in &files {
                let name = f.file_name().unwrap().to_string_lossy().to_string();
                if let Some((a, b, _, _)) = parse_item_name(&name) {
                    if a as usize == shared_put.1 && b as usize == shared_put.2 {
                        if let Ok(mut bytes) = std::fs::read(f) {
                            if rng.chance(3, 4) {
                                let hl = (u32::from_le_bytes(bytes[0..4].try_into().unwrap()) as usize + 1) * 4;
                                let p = rng.urange(hl.min(bytes.len() - 1), bytes.len() - 1);
                                bytes[p] ^= 1 << rng.below(8);
                                let _ = std::fs::write(f, &bytes);
                            }
                        }
                    }
                }
            }
        }
        let cache = match DiskCache::initialize(&cfg(&root, cap)) {
            Ok(c) => Arc::new(c),
            Err(_) => continue,
        };
        let steer = if mode != "perturbed" { Some(Steer::new(rng.next_u64(), nthreads, mode == "steered-pct")) } else { None };
        let pert_seed = rng.next_u64();
        // install the hook callback
        {
            let steer2 = steer.clone();
            let pert = Mutex::new(Rng::new(pert_seed));
            utils::verif::set_point_callback(Some(Arc::new(move |name: &'static str| {
                if !name.starts_with("cc.") {
                    return;
                }
                POINT_HITS.fetch_add(1, Ordering::Relaxed);
                match &steer2 {
                    Some(s) => s.point(name),
                    None => {
                        let us = {
                            let mut r = pert.lock().unwrap();
                            if r.chance(1, 2) {
                                0
                            } else {
                                r.below(200)
                            }
                        };
                        if us == 0 {
                            std::thread::yield_now();
                        } else {
                            std::thread::sleep(std::time::Duration::from_micros(us));
                        }
                    },
                }
            })));
        }
        let violations: Arc<Mutex<Vec<(String, String, &'static str)>>> = Arc::new(Mutex::new(Vec::new()));
        let hits = Arc::new(AtomicU64::new(0));
        let put_errs = Arc::new(AtomicU64::new(0));
        let mut handles = Vec::new();
        let barrier = Arc::new(std::sync::Barrier::new(nthreads));
        for (tid, ops) in plans.iter().cloned().enumerate() {
            let cache = cache.clone();
            let keys = keys.clone();
            let steer = steer.clone();
            let violations = violations.clone();
            let hits = hits.clone();
            let put_errs = put_errs.clone();
            let barrier = barrier.clone();
            handles.push(std::thread::spawn(move || {
                barrier.wait();
                if let Some(s) = &steer {
                    s.enter(tid);
                }
                let r = xvcommon::catch(|| {
                    for op in &ops {
                        match op {
                            COp::Put(ki, a, b) => {
                                let t = &keys[*ki];
                                if t.item_len(*a, *b) > cap {
                                    continue;
                                }
                                let (o, d) = t.slice(*a, *b);
                                match cache.put(&t.key, &ChunkRange { start: *a as u32, end: *b as u32 }, &o, d) {
                                    Ok(()) => {
                                        let tb = cache.total_bytes().unwrap_or(0);
                                        if tb > cap {
                                            violations.lock().unwrap().push(("acct-over-capacity".into(), format!("total_bytes {tb} > capacity {cap} after a put returned"), "C13"));
                                        }
                                    },
                                    Err(_) => {
                                        put_errs.fetch_add(1, Ordering::Relaxed);
                                    },
                                }
                            },
                            COp::Get(ki, a, b) => {
                                let t = &keys[*ki];
                                let r = cache.get(&t.key, &ChunkRange { start: *a as u32, end: *b as u32 });
                                match judge_get(t, *a, *b, &r) {
                                    Ok(true) => {
                                        hits.fetch_add(1, Ordering::Relaxed);
                                    },
                                    Ok(false) => {},
                                    Err((s, m)) => violations.lock().unwrap().push((s, m, "C12")),
                                }
                            },
                        }
                    }
                });
                if let Some(s) = &steer {
                    s.leave();
                }
                if let Err(p) = r {
                    violations.lock().unwrap().push(("cache-panic-concurrent".into(), p, "C12"));
                }
            }));
        }
        let mut hung = false;
        let deadline = std::time::Instant::now() + std::time::Duration::from_secs(60);
        for h in handles {
            // generous watchdog: a stuck schedule is inconclusive, never a violation
            while !h.is_finished() && std::time::Instant::now() < deadline {
                std::thread::sleep(std::time::Duration::from_millis(1));
            }
            if h.is_finished() {
                let _ = h.join();
            } else {
                hung = true;
            }
        }
        utils::verif::set_point_callback(None);
        if hung {
            rep.inconclusive("C13", "concurrent schedule did not finish within the watchdog");
            rep.inconclusive("C12", "concurrent schedule did not finish within the watchdog");
            std::mem::forget(dir);
            continue;
        }
        let w = |what: &str| {
            let mut w = witness_base(args, "cache_conc", k);
            w["mode"] = json!(mode);
            w["scenario"] = json!(scenario);
            w["threads"] = json!(nthreads);
            w["capacity"] = json!(cap);
            w["plans"] = json!(plans.iter().map(|p| p.iter().map(|o| format!("{o:?}")).collect::<Vec<_>>()).collect::<Vec<_>>());
            if let Some(s) = &steer {
                w["grant_sequence"] = s.trace_json();
            }
            w["what"] = json!(what);
            w
        };
        let mut ok = true;
        for (s, m, p) in violations.lock().unwrap().iter() {
            rep.violation(p, s, m, w(m));
            ok = false;
        }
        // quiescent: all threads joined
        let q = xvcommon::catch(|| -> Result<(), Fail> {
            judge_accounting(&cache, &root, cap, false, true)?;
            // after the concurrent phase every covered range still reads back correctly
            for ops in &plans {
                for op in ops {
                    if let COp::Put(ki, a, b) = op {
                        let t = &keys[*ki];
                        let r = cache.get(&t.key, &ChunkRange { start: *a as u32, end: *b as u32 });
                        judge_get(t, *a, *b, &r)?;
                    }
                }
            }
            judge_accounting(&cache, &root, cap, true, true)?;
            Ok(())
        });
        match q {
            Ok(Ok(())) => {},
            Ok(Err((s, m))) => {
                let p = if s.starts_with("acct") { "C13" } else { "C12" };
                rep.violation(p, &s, &m, w(&m));
                ok = false;
            },
            Err(pn) => {
                rep.violation("C12", "cache-panic-concurrent", &pn, w(&pn));
                ok = false;
            },
        }
        // re-open with the same capacity
        drop(cache);
        let q2 = xvcommon::catch(|| -> Result<(), Fail> {
            let c2 = DiskCache::initialize(&cfg(&root, cap)).map_err(|e| ("cache-reopen-error".to_string(), format!("{e}")))?;
            judge_accounting(&c2, &root, cap, false, true)?;
            judge_accounting(&c2, &root, cap, true, true)?;
            Ok(())
        });
        match q2 {
            Ok(Ok(())) => {},
            Ok(Err((s, m))) => {
                let p = if s.starts_with("acct") { "C13" } else { "C12" };
                rep.violation(p, &format!("{s}-after-reopen"), &m, w(&m));
                ok = false;
            },
            Err(pn) => {
                rep.violation("C12", "cache-panic-reopen", &pn, w(&pn));
                ok = false;
            },
        }
        let th = steer.as_ref().map(|s| s.trace_hash()).unwrap_or(pert_seed);
        let tl = steer.as_ref().map(|s| s.trace_len()).unwrap_or(0);
        let sig = format!("{mode}|{scenario}|t{nthreads}|{th:016x}");
        for p in ["C12", "C13"] {
            rep.case(p, if ok { Some(sig.clone()) } else { None });
            rep.count(p, &format!("schedules_{mode}"), 1);
        }
        rep.count("C13", &format!("scenario_{scenario}"), 1);
        rep.count("C13", "steered_grants", tl as u64);
        rep.count("C12", "concurrent_hits_judged", hits.load(Ordering::Relaxed));
        rep.count("C13", "concurrent_put_errors_tolerated", put_errs.load(Ordering::Relaxed));
        if ok {
            for p in ["C12", "C13"] {
                if rep.wants_sample(p) && steer.is_some() {
                    rep.sample(p, w("sample"));
                }
            }
        }
    }
    rep.count("C13", "hook_points_crossed", POINT_HITS.load(Ordering::Relaxed));
    rep.count("C12", "hook_points_crossed", POINT_HITS.load(Ordering::Relaxed));
}

// ------------------------------------------------------------------------------------------------
// systematic enumeration of schedules for small concurrent cases (C13, C12)

/// next script in depth-first order, or None when the space is exhausted
fn next_script(choices: &[(usize, usize)]) -> Option<Vec<usize>> {
    let mut i = choices.len();
    while i > 0 {
        i -= 1;
        if choices[i].0 + 1 < choices[i].1 {
            let mut s: Vec<usize> = choices[..i].iter().map(|c| c.0).collect();
            s.push(choices[i].0 + 1);
            return Some(s);
        }
    }
    None
}

pub fn run_enum(args: &Args, rep: &mut Report) {
    let max_schedules = args.usize("max-schedules", 3000);
    for (k, mut rng) in case_iter(args, 0xE9C3, 6) {
        // small scenarios: 2..3 threads, one or two operations each
        let nthreads = if rng.chance(args.u64("p3", 1), 8) { 3 } else { 2 };
        // scenarios are dealt round-robin over (worker, case) so that every one is enumerated in every run
        const SCENARIOS: [&str; 6] = ["identical-puts", "damaged-get-vs-put", "evict-two-race", "nested-puts", "put-vs-get", "evict-race"];
        let scenario = SCENARIOS[(k as usize + args.u64("worker", 0) as usize) % SCENARIOS.len()];
        let nchunks = rng.urange(3, 6);
        let damage_bit = rng.next_u64();
        let t = TruthKey::gen(&mut rng, nchunks, 40);
        let t2 = TruthKey::gen(&mut rng, 3, 40);
        let t3 = TruthKey::gen(&mut rng, 4, 60);
        let keys = Arc::new(vec![t.clone(), t2.clone(), t3.clone()]);
        let a = rng.usize_below(t.n() - 1);
        let b = rng.urange(a + 1, t.n());
        let plans: Vec<Vec<COp>> = (0..nthreads)
            .map(|ti| match scenario {
                "identical-puts" => vec![COp::Put(0, a, b)],
                "nested-puts" => {
                    if ti == 0 {
                        vec![COp::Put(0, 0, t.n())]
                    } else {
                        vec![COp::Put(0, a, b)]
                    }
                },
                "put-vs-get" => {
                    if ti == 0 {
                        vec![COp::Put(0, a, b)]
                    } else {
                        vec![COp::Put(0, a, b), COp::Get(0, a, b)]
                    }
                },
                "damaged-get-vs-put" => {
                    // the whole key is cached, its file is bit-damaged while the cache is closed and the cache re-opened
                    // (entry not yet verified); a get of the whole range races with a put of a covered sub-range
                    if ti == 1 {
                        vec![COp::Put(0, a, b), COp::Get(0, a, b)]
                    } else {
                        vec![COp::Get(0, 0, t.n())]
                    }
                },
                "evict-two-race" => {
                    // thread 0 inserts an item that needs both pre-filled items (key 0 and key 1) evicted;
                    // thread 1 writes into key 0's directory at the same time
                    if ti == 0 {
                        vec![COp::Put(2, 0, t3.n())]
                    } else {
                        vec![COp::Put(0, 1, 2)]
                    }
                },
                _ => {
                    if ti == 0 {
                        vec![COp::Put(0, a, b)]
                    } else {
                        vec![COp::Put(1, 0, t2.n())]
                    }
                },
            })
            .collect();
        let cap = match scenario {
            "evict-race" => t.item_len(a, b).max(t2.item_len(0, t2.n())) + 8,
            "evict-two-race" => t3.item_len(0, t3.n()).max(t.item_len(0, 1) + t2.item_len(0, 1)) + t.item_len(1, 2).min(8),
            _ => 100_000,
        };
        let mut script: Option<Vec<usize>> = Some(Vec::new());
        let mut n_sched = 0usize;
        let mut exhausted = false;
        let mut distinct: HashSet<u64> = HashSet::new();
        while let Some(sc) = script.take() {
            if n_sched >= max_schedules || args.out_of_time() {
                break;
            }
            n_sched += 1;
            let dir = tempfile::tempdir().unwrap();
            let root = dir.path().to_path_buf();
            let Ok(mut cache) = DiskCache::initialize(&cfg(&root, cap)) else { break };
            if scenario == "damaged-get-vs-put" {
                let (o, d) = t.slice(0, t.n());
                let _ = cache.put(&t.key, &ChunkRange { start: 0, end: t.n() as u32 }, &o, d);
                drop(cache);
                if let Some((f, _)) = walk_cache_files(&root).first() {
                    if let Ok(mut bytes) = std::fs::read(f) {
                        let hl = (t.n() + 2) * 4;
                        if bytes.len() > hl {
                            let bit = (hl * 8) as u64 + damage_bit % ((bytes.len() - hl) as u64 * 8);
                            bytes[(bit / 8) as usize] ^= 1 << (bit % 8);
                            let _ = std::fs::write(f, &bytes);
                        }
                    }
                }
                let Ok(c2) = DiskCache::initialize(&cfg(&root, cap)) else { break };
                cache = c2;
            }
            let cache = Arc::new(cache);
            // evict-race: pre-fill so that the puts must evict
            if scenario == "evict-race" {
                let (o, d) = t2.slice(0, 1);
                let _ = cache.put(&t2.key, &ChunkRange { start: 0, end: 1 }, &o, d);
            }
            if scenario == "evict-two-race" {
                for tk in [&t, &t2] {
                    let (o, d) = tk.slice(0, 1);
                    let _ = cache.put(&tk.key, &ChunkRange { start: 0, end: 1 }, &o, d);
                }
            }
            let steer = Steer::with_script(1, nthreads, sc.clone());
            {
                let s2 = steer.clone();
                utils::verif::set_point_callback(Some(Arc::new(move |name: &'static str| {
                    if name.starts_with("cc.") {
                        POINT_HITS.fetch_add(1, Ordering::Relaxed);
                        s2.point(name);
                    }
                })));
            }
            let viol: Arc<Mutex<Vec<(String, String, &'static str)>>> = Arc::new(Mutex::new(Vec::new()));
            let mut hs = Vec::new();
            for (tid, ops) in plans.iter().cloned().enumerate() {
                let (cache, keys, steer, viol) = (cache.clone(), keys.clone(), steer.clone(), viol.clone());
                hs.push(std::thread::spawn(move || {
                    steer.enter(tid);
                    let r = xvcommon::catch(|| {
                        for op in &ops {
                            match op {
                                COp::Put(ki, a, b) => {
                                    let t = &keys[*ki];
                                    let (o, d) = t.slice(*a, *b);
                                    if cache.put(&t.key, &ChunkRange { start: *a as u32, end: *b as u32 }, &o, d).is_ok() {
                                        let tb = cache.total_bytes().unwrap_or(0);
                                        if tb > cap {
                                            viol.lock().unwrap().push(("acct-over-capacity".into(), format!("total_bytes {tb} > capacity {cap} after a put returned"), "C13"));
                                        }
                                    }
                                },
                                COp::Get(ki, a, b) => {
                                    let t = &keys[*ki];
                                    let r = cache.get(&t.key, &ChunkRange { start: *a as u32, end: *b as u32 });
                                    if let Err((s, m)) = judge_get(t, *a, *b, &r) {
                                        viol.lock().unwrap().push((s, m, "C12"));
                                    }
                                },
                            }
                        }
                    });
                    steer.leave();
                    if let Err(p) = r {
                        viol.lock().unwrap().push(("cache-panic-concurrent".into(), p, "C12"));
                    }
                }));
            }
            for h in hs {
                let _ = h.join();
            }
            utils::verif::set_point_callback(None);
            let w = |what: &str| {
                let mut w = witness_base(args, "cache_enum", k);
                w["scenario"] = json!(scenario);
                w["threads"] = json!(nthreads);
                w["script"] = json!(sc);
                w["grant_sequence"] = steer.trace_json();
                w["what"] = json!(what);
                w
            };
            for (s, m, p) in viol.lock().unwrap().iter() {
                rep.violation(p, s, m, w(m));
            }
            let q = xvcommon::catch(|| -> Result<(), Fail> {
                judge_accounting(&cache, &root, cap, false, true)?;
                judge_accounting(&cache, &root, cap, true, true)?;
                Ok(())
            });
            match q {
                Ok(Ok(())) => {},
                Ok(Err((s, m))) => rep.violation("C13", &s, &m, w(&m)),
                Err(p) => rep.violation("C12", "cache-panic-concurrent", &p, w(&p)),
            }
            distinct.insert(steer.trace_hash());
            for p in ["C12", "C13"] {
                rep.case(p, Some(format!("enum|{scenario}|t{nthreads}|{:016x}", steer.trace_hash())));
            }
            if n_sched == 1 {
                for p in ["C12", "C13"] {
                    if rep.wants_sample(p) {
                        rep.sample(p, w("sample (first schedule of an enumerated scenario)"));
                    }
                }
            }
            script = next_script(&steer.choices());
            if script.is_none() {
                exhausted = true;
            }
        }
        rep.count("C13", "enumerated_schedules", n_sched as u64);
        rep.count("C13", "enumerated_distinct_grant_sequences", distinct.len() as u64);
        if exhausted {
            rep.count("C13", "scenarios_enumerated_exhaustively", 1);
            rep.count("C13", &format!("exhaustive_{scenario}_t{nthreads}"), 1);
        } else {
            rep.count("C13", "scenarios_enumeration_truncated", 1);
        }
    }
    rep.count("C13", "hook_points_crossed", POINT_HITS.load(Ordering::Relaxed));
}
