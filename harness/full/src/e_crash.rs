//! C19 helpers run as separate processes by bin/crashdrive.py:
//!   crash_prep   build the prior history in a directory (no tracing)
//!   crash_victim perform exactly one operation between two marker system calls (run under strace
//!                with SIGKILL injected at the k-th file-system effect)
//!   crash_check  (phase pre)  record what is retrievable before the operation
//!                (phase post) judge the directory a killed victim left behind, in a new process
use std::collections::{BTreeMap, BTreeSet};
use std::io::Cursor;
use std::path::{Path, PathBuf};

use base64::engine::general_purpose::URL_SAFE;
use base64::Engine;
use cas_client::{LocalClient, UploadClient};
use cas_types::ChunkRange;
use chunk_cache::{CacheConfig, ChunkCache, DiskCache};
use mdb_shard::cas_structs::{CASChunkSequenceEntry, CASChunkSequenceHeader, MDBCASInfo};
use mdb_shard::file_structs::{FileDataSequenceEntry, FileDataSequenceHeader, MDBFileInfo};
use mdb_shard::session_directory::consolidate_shards_in_directory;
use mdb_shard::shard_file_reconstructor::FileReconstructor;
use mdb_shard::shard_in_memory::MDBInMemoryShard;
use mdb_shard::{MDBShardInfo, ShardFileManager};
use merkledb::aggregate_hashes::cas_node_hash;
use merklehash::{compute_data_hash, MerkleHash};
use xvcommon::refs;
use xvcommon::{json, Args, Rng, Value};

use crate::e_cache::TruthKey;

fn marker(name: &str) {
    let c = std::ffi::CString::new(format!("/xv-marker-{name}")).unwrap();
    unsafe {
        libc::access(c.as_ptr(), 0);
    }
}

fn rand_hash(rng: &mut Rng) -> MerkleHash {
    MerkleHash::from([rng.next_u64(), rng.next_u64(), rng.next_u64(), rng.next_u64()])
}

fn gen_shard_content(rng: &mut Rng, n_cas: usize, n_files: usize, big: bool) -> (Vec<MDBCASInfo>, Vec<MDBFileInfo>) {
    let mut cas = Vec::new();
    for _ in 0..n_cas {
        let n = if big { rng.urange(200, 900) } else { rng.urange(1, 12) };
        let mut chunks = Vec::new();
        let mut pos = 0u32;
        for _ in 0..n {
            let l = rng.range(1, 60000) as u32;
            chunks.push(CASChunkSequenceEntry::new(rand_hash(rng), l, pos));
            pos += l;
        }
        cas.push(MDBCASInfo {
            metadata: CASChunkSequenceHeader::new(rand_hash(rng), n as u32, pos),
            chunks,
        });
    }
    let mut files = Vec::new();
    for _ in 0..n_files {
        let ns = rng.urange(1, 5);
        let segs: Vec<FileDataSequenceEntry> = (0..ns).map(|_| FileDataSequenceEntry::new(rand_hash(rng), rng.range(1, 100000) as u32, 0u32, rng.range(1, 9) as u32)).collect();
        files.push(MDBFileInfo {
            metadata: FileDataSequenceHeader::new(rand_hash(rng), segs.len(), false, false),
            segments: segs,
            verification: vec![],
            metadata_ext: None,
        });
    }
    (cas, files)
}

fn write_shard(dir: &Path, rng: &mut Rng, n_cas: usize, n_files: usize) {
    let (cas, files) = gen_shard_content(rng, n_cas, n_files, false);
    let mut m = MDBInMemoryShard::default();
    for c in cas {
        m.add_cas_block(c).unwrap();
    }
    for f in files {
        m.add_file_reconstruction_info(f).unwrap();
    }
    m.write_to_directory(dir).unwrap();
}

fn gen_xorb(rng: &mut Rng, big: bool) -> (MerkleHash, Vec<u8>, Vec<(MerkleHash, u32)>) {
    let n = if big { rng.urange(20, 60) } else { rng.urange(1, 8) };
    let mut data = Vec::new();
    let mut cb = Vec::new();
    let mut hl = Vec::new();
    for _ in 0..n {
        let l = if big { rng.urange(2000, 9000) } else { rng.urange(1, 500) };
        let c = rng.bytes(l);
        let h = compute_data_hash(&c);
        data.extend_from_slice(&c);
        cb.push((h, data.len() as u32));
        hl.push((h, l));
    }
    (cas_node_hash(&hl), data, cb)
}

fn rt_multi() -> tokio::runtime::Runtime {
    tokio::runtime::Builder::new_multi_thread().worker_threads(1).enable_all().build().unwrap()
}
fn rt_current() -> tokio::runtime::Runtime {
    tokio::runtime::Builder::new_current_thread().enable_all().build().unwrap()
}

/// cache truth keys are a pure function of the seed (the checker regenerates them)
fn cache_truth(seed: u64) -> Vec<TruthKey> {
    let mut rng = Rng::new(seed ^ 0xCACE);
    (0..4)
        .map(|_| {
            let n = rng.urange(3, 12);
            TruthKey::gen(&mut rng, n, 300)
        })
        .collect()
}

/// capacity of the cache in a scenario; history "tight" stores it next to the cache directory (bytes prepared + 10, so that
/// the victim's put must evict about as much as it inserts)
fn cache_cap_at(hist: &str, dir: &Path) -> u64 {
    if hist == "tight" {
        if let Ok(s) = std::fs::read_to_string(dir.join("cache-cap.txt")) {
            if let Ok(v) = s.trim().parse::<u64>() {
                return v;
            }
        }
        return 1 << 30;
    }
    cache_cap(hist)
}

fn cache_cap(hist: &str) -> u64 {
    if hist == "empty" || hist == "subranges" {
        1 << 30
    } else {
        9000
    }
}

pub fn prep(args: &Args) {
    let op = args.str("op", "flush");
    let hist = args.str("hist", "empty");
    let dir = PathBuf::from(args.str("dir", "/nonexistent"));
    let seed = args.u64("seed", 1);
    let mut rng = Rng::new(seed ^ 0x9E9);
    std::fs::create_dir_all(&dir).unwrap();
    match op.as_str() {
        "flush" | "consolidate" => {
            let sd = dir.join("shards");
            std::fs::create_dir_all(&sd).unwrap();
            if hist == "subset" {
                // shard A plus shards whose records are subsets of A's: the merged shard is byte-identical to A, i.e. the
                // consolidation writes a shard under a name that already exists
                let (cas, files) = gen_shard_content(&mut rng, 4, 4, false);
                let write = |cas: &[MDBCASInfo], files: &[MDBFileInfo]| {
                    let mut m = MDBInMemoryShard::default();
                    for c in cas {
                        m.add_cas_block(c.clone()).unwrap();
                    }
                    for f in files {
                        m.add_file_reconstruction_info(f.clone()).unwrap();
                    }
                    m.write_to_directory(&sd).unwrap();
                };
                write(&cas, &files);
                write(&cas[..2], &files[..1]);
                if rng.chance(1, 2) {
                    write(&cas[2..], &files[2..]);
                }
                return;
            }
            let n = match (op.as_str(), hist.as_str()) {
                ("flush", "empty") => 0,
                ("consolidate", "empty") => 2,
                _ => rng.urange(3, 9),
            };
            for _ in 0..n {
                let nc = rng.urange(1, 4);
                let nf = rng.urange(0, 4);
                write_shard(&sd, &mut rng, nc, nf);
            }
            if hist == "leftovers" {
                std::fs::write(sd.join(".3f1c0000-dead-beef-0000-000000000000.mdb_temp"), rng.bytes(300)).unwrap();
                std::fs::write(sd.join(".another.mdb_temp"), b"").unwrap();
            }
        },
        "localput" => {
            let store = dir.join("store");
            let rt = rt_multi();
            rt.block_on(async {
                let c = LocalClient::new(&store, None).unwrap();
                if hist != "empty" {
                    for _ in 0..rng.urange(2, 5) {
                        let (h, data, cb) = gen_xorb(&mut rng, false);
                        c.put("default", &h, data, cb).await.unwrap();
                    }
                }
            });
            if hist == "leftovers" {
                std::fs::write(store.join("xorbs").join(".xorbs.AbCdEfGhIj.tmp"), rng.bytes(200)).unwrap();
            }
        },
        "cacheput" | "cacheinit" => {
            let cd = dir.join("cache");
            std::fs::create_dir_all(&cd).unwrap();
            let truth = cache_truth(seed);
            if hist == "tight" {
                // three whole keys cached, capacity = what they occupy + 10: the victim's put has to evict about as much as it
                // inserts; killed between its rename and its unlinks, the directory holds more than the capacity
                let cache = DiskCache::initialize(&CacheConfig { cache_directory: cd.clone(), cache_size: 1 << 30 }).unwrap();
                for t in truth.iter().take(3) {
                    let h = t.n() / 2;
                    for (a, b) in [(0usize, h.max(1)), (h.max(1), t.n())] {
                        if a < b {
                            let (o, d) = t.slice(a, b);
                            let _ = cache.put(&t.key, &ChunkRange { start: a as u32, end: b as u32 }, &o, d);
                        }
                    }
                }
                drop(cache);
                let total: u64 = crate::e_cache_walk(&cd).iter().map(|x| x.1).sum();
                std::fs::write(dir.join("cache-cap.txt"), format!("{}", total + 10)).unwrap();
                return;
            }
            if hist == "subranges" {
                // the key the victim will put whole already has some of its sub-ranges cached (capacity not binding):
                // the victim's put supersedes them
                let cache = DiskCache::initialize(&CacheConfig { cache_directory: cd.clone(), cache_size: cache_cap(&hist) }).unwrap();
                let t = &truth[3];
                let n = t.n();
                let mut rs = vec![(0usize, 2.min(n)), (n - 1, n)];
                if n >= 5 {
                    rs.push((2, 4));
                }
                if rng.chance(1, 2) && n >= 4 {
                    rs.push((1, 3)); // overlapping
                }
                for (a, b) in rs {
                    let (o, d) = t.slice(a, b);
                    let _ = cache.put(&t.key, &ChunkRange { start: a as u32, end: b as u32 }, &o, d);
                }
                let t0 = &truth[0];
                let (o, d) = t0.slice(0, t0.n());
                let _ = cache.put(&t0.key, &ChunkRange { start: 0, end: t0.n() as u32 }, &o, d);
            } else if hist != "empty" {
                let cache = DiskCache::initialize(&CacheConfig { cache_directory: cd.clone(), cache_size: cache_cap(&hist) }).unwrap();
                for t in truth.iter().take(3) {
                    for _ in 0..2 {
                        let a = rng.usize_below(t.n());
                        let b = rng.urange(a + 1, t.n());
                        let (o, d) = t.slice(a, b);
                        let _ = cache.put(&t.key, &ChunkRange { start: a as u32, end: b as u32 }, &o, d);
                    }
                }
            }
            if hist == "leftovers" || op == "cacheinit" {
                // what an earlier crash (or a user) can leave: temp files, stray files, a file with a
                // well-formed name whose length does not match
                let files = crate::e_cache_walk(&cd);
                if let Some((f, _)) = files.first() {
                    let kd = f.parent().unwrap();
                    std::fs::write(kd.join(".leftover.Zz12345678.tmp"), rng.bytes(50)).unwrap();
                    std::fs::write(kd.join("not-an-item"), b"junk").unwrap();
                    let mut buf = Vec::new();
                    buf.extend_from_slice(&0u32.to_le_bytes());
                    buf.extend_from_slice(&2u32.to_le_bytes());
                    buf.extend_from_slice(&999u64.to_le_bytes());
                    buf.extend_from_slice(&7u32.to_le_bytes());
                    std::fs::write(kd.join(URL_SAFE.encode(buf)), rng.bytes(40)).unwrap();
                }
                std::fs::create_dir_all(cd.join("zz").join("stray")).unwrap();
            }
        },
        _ => panic!("unknown op"),
    }
}

pub fn victim(args: &Args) {
    let op = args.str("op", "flush");
    let hist = args.str("hist", "empty");
    let dir = PathBuf::from(args.str("dir", "/nonexistent"));
    let seed = args.u64("seed", 1);
    let big = args.has("big");
    let mut rng = Rng::new(seed ^ 0x71C7);
    match op.as_str() {
        "flush" => {
            let rt = rt_current();
            rt.block_on(async {
                let m = ShardFileManager::new_in_session_directory(dir.join("shards")).await.unwrap();
                let (cas, files) = gen_shard_content(&mut rng, if big { 6 } else { 3 }, 4, big);
                for c in cas {
                    m.add_cas_block(c).await.unwrap();
                }
                for f in files {
                    m.add_file_reconstruction_info(f).await.unwrap();
                }
                marker("begin");
                let r = m.flush().await;
                marker("end");
                println!("XVRESULT {}", if r.is_ok() { "ok" } else { "err" });
            });
        },
        "consolidate" => {
            let target = if big { 1 << 26 } else { 4000 };
            marker("begin");
            let r = consolidate_shards_in_directory(&dir.join("shards"), target);
            marker("end");
            println!("XVRESULT {}", if r.is_ok() { "ok" } else { "err" });
        },
        "localput" => {
            let rt = rt_multi();
            rt.block_on(async {
                let c = LocalClient::new(dir.join("store"), None).unwrap();
                let (h, data, cb) = gen_xorb(&mut rng, big);
                marker("begin");
                let r = c.put("default", &h, data, cb).await;
                marker("end");
                println!("XVRESULT {}", if r.is_ok() { "ok" } else { "err" });
            });
        },
        "cacheput" => {
            let truth = cache_truth(seed);
            let cache = DiskCache::initialize(&CacheConfig { cache_directory: dir.join("cache"), cache_size: cache_cap_at(&hist, &dir) }).unwrap();
            let t = &truth[3];
            let (a, b) = (0, t.n());
            let (o, d) = t.slice(a, b);
            marker("begin");
            let r = cache.put(&t.key, &ChunkRange { start: a as u32, end: b as u32 }, &o, d);
            marker("end");
            println!("XVRESULT {}", if r.is_ok() { "ok" } else { "err" });
        },
        "cacheinit" => {
            marker("begin");
            let r = DiskCache::initialize(&CacheConfig { cache_directory: dir.join("cache"), cache_size: cache_cap_at(&hist, &dir) });
            marker("end");
            println!("XVRESULT {}", if r.is_ok() { "ok" } else { "err" });
        },
        _ => panic!("unknown op"),
    }
}

fn shard_dir_state(sd: &Path) -> Result<(BTreeMap<String, MDBFileInfo>, BTreeMap<String, MDBCASInfo>, usize, usize), String> {
    let mut files = BTreeMap::new();
    let mut cas = BTreeMap::new();
    let mut n_shards = 0;
    let mut n_temp = 0;
    let Ok(rd) = std::fs::read_dir(sd) else {
        return Ok((files, cas, 0, 0));
    };
    for e in rd.flatten() {
        let name = e.file_name().to_string_lossy().to_string();
        if !name.ends_with(".mdb") {
            n_temp += 1;
            continue;
        }
        let bytes = std::fs::read(e.path()).map_err(|er| format!("io: {er}"))?;
        let h = MerkleHash::from(&refs::leaf_hash(&bytes));
        if name != format!("{}.mdb", h.hex()) {
            return Err(format!("partial-shard-under-final-name|shard file {name} ({} bytes): its name is not the hash of its contents", bytes.len()));
        }
        let mut rdr = Cursor::new(&bytes);
        let info = MDBShardInfo::load_from_reader(&mut rdr).map_err(|er| format!("partial-shard-under-final-name|shard file {name} does not parse: {er}"))?;
        for f in info.read_all_file_info_sections(&mut rdr).map_err(|er| format!("partial-shard-under-final-name|shard {name} file section unreadable: {er}"))? {
            files.insert(f.metadata.file_hash.hex(), f);
        }
        for c in info.read_all_cas_blocks_full(&mut rdr).map_err(|er| format!("partial-shard-under-final-name|shard {name} cas section unreadable: {er}"))? {
            cas.insert(c.metadata.cas_hash.hex(), c);
        }
        n_shards += 1;
    }
    Ok((files, cas, n_shards, n_temp))
}

fn cache_dir_state(cd: &Path) -> (Vec<String>, usize) {
    // returns (invalid final-name files, number of valid item files)
    let mut invalid = Vec::new();
    let mut valid = 0;
    for (p, len) in crate::e_cache_walk(cd) {
        let name = p.file_name().unwrap().to_string_lossy().to_string();
        let b = URL_SAFE.decode(name.as_bytes()).unwrap_or_default();
        if b.len() != 20 {
            continue;
        }
        let want_len = u64::from_le_bytes(b[8..16].try_into().unwrap());
        let want_crc = u32::from_le_bytes(b[16..20].try_into().unwrap());
        let content = std::fs::read(&p).unwrap_or_default();
        let mut h = crc32fast::Hasher::new();
        h.update(&content);
        if len != want_len || h.finalize() != want_crc {
            invalid.push(p.strip_prefix(cd).unwrap_or(&p).to_string_lossy().to_string());
        } else {
            valid += 1;
        }
    }
    (invalid, valid)
}

/// prints one JSON line: {"ok":bool, "sig":..., "what":..., "stats":{...}} ; phase pre writes --out
pub fn check(args: &Args) {
    let op = args.str("op", "flush");
    let hist = args.str("hist", "empty");
    let dir = PathBuf::from(args.str("dir", "/nonexistent"));
    let seed = args.u64("seed", 1);
    let phase = args.str("phase", "post");
    let res = xvcommon::catch(|| -> Result<Value, String> {
        match op.as_str() {
            "flush" | "consolidate" => {
                let sd = dir.join("shards");
                let (files, cas, n_shards, n_temp) = shard_dir_state(&sd)?;
                if phase == "pre" {
                    return Ok(json!({"files": files.keys().collect::<Vec<_>>(), "cas": cas.keys().collect::<Vec<_>>()}));
                }
                let pre: Value = serde_json::from_str(&std::fs::read_to_string(args.str("pre", "")).map_err(|e| format!("io: {e}"))?).map_err(|e| format!("io: {e}"))?;
                for f in pre["files"].as_array().unwrap() {
                    if !files.contains_key(f.as_str().unwrap()) {
                        return Err(format!("record-lost-after-crash|file record {} retrievable before the interrupted operation is gone", f.as_str().unwrap()));
                    }
                }
                for c in pre["cas"].as_array().unwrap() {
                    if !cas.contains_key(c.as_str().unwrap()) {
                        return Err(format!("record-lost-after-crash|xorb record {} retrievable before the interrupted operation is gone", c.as_str().unwrap()));
                    }
                }
                // an operation that reported success (I/O-error runs: the process went on) has its own records in place
                if op == "flush" && args.str("op-result", "") == "ok" {
                    let mut vr = Rng::new(seed ^ 0x71C7);
                    let big = args.has("big");
                    let (vcas, vfiles) = gen_shard_content(&mut vr, if big { 6 } else { 3 }, 4, big);
                    for c in &vcas {
                        if !cas.contains_key(&c.metadata.cas_hash.hex()) {
                            return Err(format!("success-but-record-missing|flush returned Ok although an I/O call failed, and xorb record {} is in no shard", c.metadata.cas_hash.hex()));
                        }
                    }
                    for f in &vfiles {
                        if !files.contains_key(&f.metadata.file_hash.hex()) {
                            return Err(format!("success-but-record-missing|flush returned Ok although an I/O call failed, and file record {} is in no shard", f.metadata.file_hash.hex()));
                        }
                    }
                }
                // re-open through the manager
                let rt = rt_current();
                let reopened = rt.block_on(async {
                    let m = ShardFileManager::new_in_session_directory(&sd).await.map_err(|e| format!("reopen-error-after-crash|ShardFileManager cannot re-open the directory: {e}"))?;
                    for f in pre["files"].as_array().unwrap().iter().take(20) {
                        let h = MerkleHash::from_hex(f.as_str().unwrap()).unwrap();
                        match m.get_file_reconstruction_info(&h).await {
                            Ok(Some(_)) => {},
                            Ok(None) => return Err(format!("record-lost-after-crash|manager no longer finds file record {}", h.hex())),
                            Err(e) => return Err(format!("reopen-error-after-crash|lookup error after re-open: {e}")),
                        }
                    }
                    Ok::<(), String>(())
                });
                reopened?;
                // the restarted process goes on: a (complete) consolidation over the directory the crash left behind
                // must keep every record as well (history = interrupted operation, then the next one)
                let target = if args.has("big") { 1 << 26 } else { 4000 };
                let mut recovered = 0;
                if let Ok(list) = consolidate_shards_in_directory(&sd, target) {
                    for sfi in &list {
                        if !sfi.path.exists() {
                            return Err(format!("record-lost-after-restart-consolidate|consolidation after the restart reports shard {:?} which does not exist", sfi.path.file_name().unwrap_or_default()));
                        }
                    }
                    let (files2, cas2, _, _) = shard_dir_state(&sd).map_err(|e| e.replace("partial-shard-under-final-name", "partial-shard-after-restart-consolidate"))?;
                    for f in pre["files"].as_array().unwrap() {
                        if !files2.contains_key(f.as_str().unwrap()) {
                            return Err(format!("record-lost-after-restart-consolidate|file record {} retrievable before the interrupted operation is gone after the next consolidation", f.as_str().unwrap()));
                        }
                    }
                    for c in pre["cas"].as_array().unwrap() {
                        if !cas2.contains_key(c.as_str().unwrap()) {
                            return Err(format!("record-lost-after-restart-consolidate|xorb record {} retrievable before the interrupted operation is gone after the next consolidation", c.as_str().unwrap()));
                        }
                    }
                    recovered = 1;
                }
                Ok(json!({"shards": n_shards, "temp_files_ignored": n_temp, "files": files.len(), "cas": cas.len(), "restart_consolidations_checked": recovered}))
            },
            "localput" => {
                let xd = dir.join("store").join("xorbs");
                let ioerr = args.str("fault", "") == "ioerr";
                // the xorb the victim puts (a pure function of the seed)
                let (vh, vdata, vcb) = {
                    let mut vr = Rng::new(seed ^ 0x71C7);
                    gen_xorb(&mut vr, args.has("big"))
                };
                let scan = |tolerate: Option<&str>| -> Result<(BTreeSet<String>, usize, bool), String> {
                    let mut names = BTreeSet::new();
                    let mut n_temp = 0;
                    let mut tolerated = false;
                    if let Ok(rd) = std::fs::read_dir(&xd) {
                        for e in rd.flatten() {
                            let name = e.file_name().to_string_lossy().to_string();
                            let Some(hexs) = name.strip_prefix("default.") else {
                                n_temp += 1;
                                continue;
                            };
                            let bytes = std::fs::read(e.path()).map_err(|er| format!("io: {er}"))?;
                            let parsed = refs::ref_parse_xorb_v1(&bytes);
                            let good = matches!(&parsed, Ok(r) if refs::hex_words(&r.computed_hash) == hexs);
                            if !good {
                                if tolerate == Some(hexs) {
                                    tolerated = true;
                                    continue;
                                }
                                return Err(match parsed {
                                    Err(er) => format!("partial-xorb-under-final-name|xorb file {name} ({} bytes) does not decode: {er}", bytes.len()),
                                    Ok(_) => format!("partial-xorb-under-final-name|xorb file {name}: recomputed hash differs from its name"),
                                });
                            }
                            names.insert(hexs.to_string());
                        }
                    }
                    Ok((names, n_temp, tolerated))
                };
                // I/O-error runs are judged at the client boundary (C16): what counts is what a put that returns Ok leaves
                // behind, so a damaged file of the victim's own xorb is tolerated here and judged after the retry below
                let vhex = vh.hex();
                let (names, n_temp, damaged_left) = scan(if ioerr { Some(vhex.as_str()) } else { None })?;
                if phase == "pre" {
                    return Ok(json!({"xorbs": names.iter().collect::<Vec<_>>()}));
                }
                let pre: Value = serde_json::from_str(&std::fs::read_to_string(args.str("pre", "")).map_err(|e| format!("io: {e}"))?).map_err(|e| format!("io: {e}"))?;
                for x in pre["xorbs"].as_array().unwrap() {
                    if !names.contains(x.as_str().unwrap()) {
                        return Err(format!("record-lost-after-crash|xorb {} stored before the interrupted put is gone", x.as_str().unwrap()));
                    }
                }
                if args.str("op-result", "") == "ok" && !names.contains(&vhex) {
                    return Err(format!("success-but-xorb-not-stored|put returned Ok although an I/O call underneath it failed, and xorb {vhex} is not stored complete"));
                }
                let rt = rt_multi();
                let retried = rt.block_on(async {
                    let c = LocalClient::new(dir.join("store"), None).map_err(|e| format!("reopen-error-after-crash|LocalClient cannot re-open the store: {e}"))?;
                    for x in pre["xorbs"].as_array().unwrap() {
                        let h = MerkleHash::from_hex(x.as_str().unwrap()).unwrap();
                        c.get(&h).map_err(|e| format!("record-lost-after-crash|stored xorb {} no longer readable: {e}", h.hex()))?;
                    }
                    if ioerr {
                        // the caller retries the upload (now without a fault): a put that returns Ok must leave the xorb stored complete
                        if c.put("default", &vh, vdata.clone(), vcb.clone()).await.is_ok() {
                            return Ok::<bool, String>(true);
                        }
                    }
                    Ok::<bool, String>(false)
                })?;
                if retried {
                    let (names2, _, _) = scan(None).map_err(|e| e.replace("partial-xorb-under-final-name", "success-but-xorb-not-stored"))?;
                    if !names2.contains(&vhex) {
                        return Err(format!("success-but-xorb-not-stored|the retried put returned Ok and xorb {vhex} is not stored"));
                    }
                }
                Ok(json!({"xorbs": names.len(), "temp_files_ignored": n_temp, "damaged_file_left_by_failed_put": damaged_left as u64, "retried_puts_judged": retried as u64}))
            },
            "cacheput" | "cacheinit" => {
                let cd = dir.join("cache");
                let (invalid, valid) = cache_dir_state(&cd);
                let no_eviction = cache_cap_at(&hist, &dir) >= (1 << 30);
                let readable_chunks = |cache: &DiskCache| -> Vec<String> {
                    let mut v = Vec::new();
                    for (ki, t) in cache_truth(seed).iter().enumerate() {
                        for i in 0..t.n() {
                            if let Ok(Some(_)) = cache.get(&t.key, &ChunkRange { start: i as u32, end: i as u32 + 1 }) {
                                v.push(format!("{ki}:{i}"));
                            }
                        }
                    }
                    v
                };
                if phase == "pre" {
                    let mut readable = Vec::new();
                    if no_eviction && op == "cacheput" {
                        // pre-phase runs on a scratch copy of the prepared directory? no: on the base itself, read-only gets
                        if let Ok(cache) = DiskCache::initialize(&CacheConfig { cache_directory: cd.clone(), cache_size: cache_cap_at(&hist, &dir) }) {
                            readable = readable_chunks(&cache);
                        }
                    }
                    return Ok(json!({"invalid": invalid, "readable": readable}));
                }
                let pre: Value = serde_json::from_str(&std::fs::read_to_string(args.str("pre", "")).map_err(|e| format!("io: {e}"))?).map_err(|e| format!("io: {e}"))?;
                let pre_invalid: BTreeSet<String> = pre["invalid"].as_array().unwrap().iter().map(|v| v.as_str().unwrap().to_string()).collect();
                for i in &invalid {
                    if !pre_invalid.contains(i) {
                        return Err(format!("partial-cache-item-under-final-name|cache file {i} has a final name but its length / checksum do not match it"));
                    }
                }
                let cache = DiskCache::initialize(&CacheConfig { cache_directory: cd.clone(), cache_size: cache_cap_at(&hist, &dir) }).map_err(|e| format!("reopen-error-after-crash|DiskCache cannot re-open the directory: {e}"))?;
                let truth = cache_truth(seed);
                let mut hits = 0;
                for t in &truth {
                    for a in 0..t.n() {
                        for b in a + 1..=t.n() {
                            if let Ok(Some(r)) = cache.get(&t.key, &ChunkRange { start: a as u32, end: b as u32 }) {
                                let (o, d) = t.slice(a, b);
                                if r.data.as_ref() != d || r.offsets.as_ref() != o.as_slice() {
                                    return Err(format!("wrong-data-after-crash|cache hit for [{a},{b}) after the crash returned wrong data"));
                                }
                                hits += 1;
                            }
                        }
                    }
                }
                // every complete, correctly named cache file the crash left must be tracked after the restart, i.e. readable by
                // the range in its name (the directory holds less than twice the capacity in these scenarios, which is what a
                // restart loads)
                let mut on_disk_tracked = 0;
                let disk_total: u64 = crate::e_cache_walk(&cd).iter().map(|x| x.1).sum();
                let within_restart_budget = disk_total < 2 * cache_cap_at(&hist, &dir);
                for (pth, len) in crate::e_cache_walk(&cd).into_iter().filter(|_| within_restart_budget) {
                    let name = pth.file_name().unwrap().to_string_lossy().to_string();
                    let b = URL_SAFE.decode(name.as_bytes()).unwrap_or_default();
                    if b.len() != 20 {
                        continue;
                    }
                    let (a, e) = (u32::from_le_bytes(b[0..4].try_into().unwrap()), u32::from_le_bytes(b[4..8].try_into().unwrap()));
                    let want_len = u64::from_le_bytes(b[8..16].try_into().unwrap());
                    let want_crc = u32::from_le_bytes(b[16..20].try_into().unwrap());
                    let content = std::fs::read(&pth).unwrap_or_default();
                    if len != want_len || crc32fast::hash(&content) != want_crc {
                        continue;
                    }
                    let kd = pth.parent().unwrap().file_name().unwrap().to_string_lossy().to_string();
                    let Some(t) = truth.iter().find(|t| {
                        let mut buf = t.key.hash.as_bytes().to_vec();
                        buf.extend_from_slice(t.key.prefix.as_bytes());
                        URL_SAFE.encode(&buf) == kd
                    }) else {
                        continue;
                    };
                    if (e as usize) > t.n() || a >= e {
                        continue;
                    }
                    match cache.get(&t.key, &ChunkRange { start: a, end: e }) {
                        Ok(Some(_)) => on_disk_tracked += 1,
                        other => {
                            return Err(format!(
                                "record-lost-after-crash|the complete cache file {name} (chunks [{a},{e})) is on disk after the restart but the re-opened cache does not serve it ({:?}): it is no longer tracked",
                                other.map(|o| o.is_some())
                            ))
                        },
                    }
                }
                let _ = on_disk_tracked;
                // capacity not binding: whatever chunk was readable before the interrupted put is readable after the restart
                let mut kept = 0;
                if no_eviction {
                    let now: BTreeSet<String> = readable_chunks(&cache).into_iter().collect();
                    for r in pre["readable"].as_array().map(|a| a.as_slice()).unwrap_or(&[]) {
                        if !now.contains(r.as_str().unwrap()) {
                            return Err(format!("record-lost-after-crash|chunk {} (key:index) was readable from the cache before the interrupted put and is not after the restart (no eviction possible)", r.as_str().unwrap()));
                        }
                        kept += 1;
                    }
                }
                if op == "cacheput" && no_eviction && args.str("op-result", "") == "ok" {
                    let t = &truth[3];
                    let (_, d) = t.slice(0, t.n());
                    match cache.get(&t.key, &ChunkRange { start: 0, end: t.n() as u32 }) {
                        Ok(Some(r)) if r.data.as_ref() == d => {},
                        other => {
                            return Err(format!(
                                "success-but-record-missing|put returned Ok although an I/O call failed, and the item does not read back after a re-open ({:?})",
                                other.map(|o| o.is_some())
                            ))
                        },
                    }
                }
                // the restarted process goes on: the same put again must work and read back
                if op == "cacheput" {
                    let t = &truth[3];
                    let (o, d) = t.slice(0, t.n());
                    let _ = cache.put(&t.key, &ChunkRange { start: 0, end: t.n() as u32 }, &o, d);
                    match cache.get(&t.key, &ChunkRange { start: 0, end: t.n() as u32 }) {
                        Ok(Some(r)) if r.data.as_ref() == d => {},
                        Ok(Some(_)) => return Err("wrong-data-after-crash|the put repeated after the restart reads back wrong data".into()),
                        other => {
                            if no_eviction {
                                return Err(format!("record-lost-after-crash|the put repeated after the restart does not read back ({:?})", other.map(|o| o.is_some())));
                            }
                        },
                    }
                }
                Ok(json!({"valid_items": valid, "hits_judged": hits, "pre_readable_chunks_kept": kept}))
            },
            _ => Err("unknown op".into()),
        }
    });
    let out = match res {
        Ok(Ok(stats)) => {
            if phase == "pre" {
                std::fs::write(args.str("out", "/dev/null"), stats.to_string()).unwrap();
            }
            json!({"ok": true, "stats": stats})
        },
        Ok(Err(e)) => {
            let (sig, what) = e.split_once('|').map(|(a, b)| (a.to_string(), b.to_string())).unwrap_or(("checker-error".to_string(), e.clone()));
            json!({"ok": false, "sig": sig, "what": what})
        },
        Err(p) => json!({"ok": false, "sig": "panic-on-reopen-after-crash", "what": format!("panic while re-opening / reading after the crash: {p}")}),
    };
    println!("XVCRASH {out}");
}
