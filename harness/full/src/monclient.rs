//! The injected store client: wraps a real LocalClient, records every call (start / end, from one
//! sequence counter, at the client boundary), optionally delays calls or fails them according to a
//! fault plan addressed by (operation kind, ordinal).
use std::collections::HashMap;
use std::path::PathBuf;
use std::sync::atomic::{AtomicU64, Ordering};
use std::sync::{Arc, Mutex};

use async_trait::async_trait;
use cas_client::{CasClientError, Client, LocalClient, OutputProvider, ReconstructionClient, ShardClientInterface, UploadClient};
use cas_client::{VerifRegistrationClient, VerifShardDedupProber};
use cas_types::FileRange;
use mdb_shard::file_structs::MDBFileInfo;
use mdb_shard::shard_file_reconstructor::FileReconstructor;
use merklehash::MerkleHash;
use utils::progress::ProgressUpdater;
use xvcommon::Rng;

#[derive(Clone, Copy, Debug, PartialEq, Eq, Hash)]
pub enum Op {
    Put,
    UploadShard,
    Exists,
    QueryGlobal,
    GetFile,
    GetRecon,
}

#[derive(Clone, Debug)]
pub struct Event {
    pub seq: u64,
    pub op: Op,
    pub start: bool,
    pub ordinal: usize,
    pub key: MerkleHash,
    /// end events: Ok?
    pub ok: bool,
    pub injected: bool,
    /// put: return value (bytes transmitted)
    pub ret: usize,
    pub nbytes: usize,
    /// put (start): the (hash, boundary) list; upload_shard (start): the shard bytes
    pub chunks: Option<Arc<Vec<(MerkleHash, u32)>>>,
    pub shard: Option<Arc<Vec<u8>>>,
}

#[derive(Clone, Debug, Default)]
pub struct Plan {
    /// (op, ordinal) -> fail that call with an injected error (the store is not touched)
    pub fail: HashMap<(Op, usize), ()>,
    /// seeded random delay (0..max_delay_us) before and after forwarding put / upload_shard
    pub delay_seed: Option<u64>,
    pub max_delay_us: u64,
    /// answer successful shard uploads with Ok(false) ("already exists")
    pub shard_reply_exists: bool,
    /// global-dedup answers are handed out the way the server does it: re-exported under a fresh HMAC key, without
    /// file records (seed of the keys / lookup-table flags)
    pub global_keyed_seed: Option<u64>,
}

pub struct Log {
    pub events: Mutex<Vec<Event>>,
    seq: AtomicU64,
    ordinals: Mutex<HashMap<Op, usize>>,
}

impl Log {
    pub fn new() -> Arc<Self> {
        Arc::new(Log {
            events: Mutex::new(Vec::new()),
            seq: AtomicU64::new(0),
            ordinals: Mutex::new(HashMap::new()),
        })
    }
    fn next_ordinal(&self, op: Op) -> usize {
        let mut g = self.ordinals.lock().unwrap();
        let e = g.entry(op).or_insert(0);
        let v = *e;
        *e += 1;
        v
    }
    fn push(&self, mut e: Event) {
        // the sequence number is taken under the same lock that appends, so log order == seq order
        let mut g = self.events.lock().unwrap();
        e.seq = self.seq.fetch_add(1, Ordering::SeqCst);
        g.push(e);
    }
    pub fn snapshot(&self) -> Vec<Event> {
        self.events.lock().unwrap().clone()
    }
    pub fn count(&self, op: Op) -> usize {
        *self.ordinals.lock().unwrap().get(&op).unwrap_or(&0)
    }
}

pub struct MonitoredClient {
    inner: Arc<LocalClient>,
    pub log: Arc<Log>,
    plan: Plan,
    delay_rng: Mutex<Option<Rng>>,
    /// global-dedup answers are staged here by the LocalClient and then published atomically into
    /// the session's shard cache (LocalClient::query_for_global_dedup_shard copies straight onto the
    /// final name, which races with concurrent readers of the same shard; that race belongs to the
    /// store double, not to the code under test, so the wrapper serializes and publishes by rename)
    gd_final_dir: Option<PathBuf>,
    gd_lock: tokio::sync::Mutex<()>,
}

impl MonitoredClient {
    pub fn new(store_dir: PathBuf, shard_cache_dir: Option<PathBuf>, log: Arc<Log>, plan: Plan) -> Result<Arc<Self>, CasClientError> {
        let staging = shard_cache_dir.as_ref().map(|d| {
            let mut s = d.clone().into_os_string();
            s.push("-gd-staging");
            PathBuf::from(s)
        });
        if let Some(st) = &staging {
            std::fs::create_dir_all(st)?;
        }
        let inner = Arc::new(LocalClient::new(store_dir, staging)?);
        let delay_rng = Mutex::new(plan.delay_seed.map(Rng::new));
        Ok(Arc::new(MonitoredClient {
            inner,
            log,
            plan,
            delay_rng,
            gd_final_dir: shard_cache_dir,
            gd_lock: tokio::sync::Mutex::new(()),
        }))
    }

    async fn maybe_delay(&self) {
        let us = {
            let mut g = self.delay_rng.lock().unwrap();
            match g.as_mut() {
                Some(r) => {
                    if r.chance(1, 3) {
                        0
                    } else {
                        r.below(self.plan.max_delay_us.max(1))
                    }
                },
                None => return,
            }
        };
        if us == 0 {
            tokio::task::yield_now().await;
        } else {
            tokio::time::sleep(std::time::Duration::from_micros(us)).await;
        }
    }

    fn ev(&self, op: Op, start: bool, ordinal: usize, key: &MerkleHash) -> Event {
        Event {
            seq: 0,
            op,
            start,
            ordinal,
            key: *key,
            ok: true,
            injected: false,
            ret: 0,
            nbytes: 0,
            chunks: None,
            shard: None,
        }
    }
}

fn injected() -> CasClientError {
    CasClientError::Other("xv-injected-fault".to_string())
}

#[async_trait]
impl UploadClient for MonitoredClient {
    async fn put(&self, prefix: &str, hash: &MerkleHash, data: Vec<u8>, chunk_and_boundaries: Vec<(MerkleHash, u32)>) -> Result<usize, CasClientError> {
        let ord = self.log.next_ordinal(Op::Put);
        let mut e = self.ev(Op::Put, true, ord, hash);
        e.nbytes = data.len();
        e.chunks = Some(Arc::new(chunk_and_boundaries.clone()));
        self.log.push(e);
        self.maybe_delay().await;
        let res = if self.plan.fail.contains_key(&(Op::Put, ord)) {
            Err(injected())
        } else {
            self.inner.put(prefix, hash, data, chunk_and_boundaries).await
        };
        self.maybe_delay().await;
        let mut e = self.ev(Op::Put, false, ord, hash);
        e.ok = res.is_ok();
        e.injected = self.plan.fail.contains_key(&(Op::Put, ord));
        e.ret = *res.as_ref().unwrap_or(&0);
        self.log.push(e);
        res
    }

    async fn exists(&self, prefix: &str, hash: &MerkleHash) -> Result<bool, CasClientError> {
        let ord = self.log.next_ordinal(Op::Exists);
        self.log.push(self.ev(Op::Exists, true, ord, hash));
        let r = self.inner.exists(prefix, hash).await;
        let mut e = self.ev(Op::Exists, false, ord, hash);
        e.ok = r.is_ok();
        self.log.push(e);
        r
    }
}

#[async_trait]
impl ReconstructionClient for MonitoredClient {
    async fn get_file(
        &self,
        hash: &MerkleHash,
        byte_range: Option<FileRange>,
        output_provider: &OutputProvider,
        progress_updater: Option<Arc<dyn ProgressUpdater>>,
    ) -> Result<u64, CasClientError> {
        let ord = self.log.next_ordinal(Op::GetFile);
        self.log.push(self.ev(Op::GetFile, true, ord, hash));
        let r = self.inner.get_file(hash, byte_range, output_provider, progress_updater).await;
        let mut e = self.ev(Op::GetFile, false, ord, hash);
        e.ok = r.is_ok();
        self.log.push(e);
        r
    }
}

#[async_trait]
impl VerifRegistrationClient for MonitoredClient {
    async fn upload_shard(&self, prefix: &str, hash: &MerkleHash, force_sync: bool, shard_data: &[u8], salt: &[u8; 32]) -> Result<bool, CasClientError> {
        let ord = self.log.next_ordinal(Op::UploadShard);
        let mut e = self.ev(Op::UploadShard, true, ord, hash);
        e.nbytes = shard_data.len();
        e.shard = Some(Arc::new(shard_data.to_vec()));
        self.log.push(e);
        self.maybe_delay().await;
        let res = if self.plan.fail.contains_key(&(Op::UploadShard, ord)) {
            Err(injected())
        } else {
            let r = self.inner.upload_shard(prefix, hash, force_sync, shard_data, salt).await;
            if self.plan.shard_reply_exists { r.map(|_| false) } else { r }
        };
        self.maybe_delay().await;
        let mut e = self.ev(Op::UploadShard, false, ord, hash);
        e.ok = res.is_ok();
        e.injected = self.plan.fail.contains_key(&(Op::UploadShard, ord));
        self.log.push(e);
        res
    }
}

#[async_trait]
impl FileReconstructor<CasClientError> for MonitoredClient {
    async fn get_file_reconstruction_info(&self, file_hash: &MerkleHash) -> Result<Option<(MDBFileInfo, Option<MerkleHash>)>, CasClientError> {
        let ord = self.log.next_ordinal(Op::GetRecon);
        self.log.push(self.ev(Op::GetRecon, true, ord, file_hash));
        let r = self.inner.get_file_reconstruction_info(file_hash).await;
        let mut e = self.ev(Op::GetRecon, false, ord, file_hash);
        e.ok = r.is_ok();
        self.log.push(e);
        r
    }
}

#[async_trait]
impl VerifShardDedupProber for MonitoredClient {
    async fn query_for_global_dedup_shard(&self, prefix: &str, chunk_hash: &MerkleHash, salt: &[u8; 32]) -> Result<Option<PathBuf>, CasClientError> {
        let ord = self.log.next_ordinal(Op::QueryGlobal);
        self.log.push(self.ev(Op::QueryGlobal, true, ord, chunk_hash));
        let mut return_err: Option<CasClientError> = None;
        let r = {
            let _g = self.gd_lock.lock().await;
            match self.inner.query_for_global_dedup_shard(prefix, chunk_hash, salt).await {
                Ok(Some(staged)) => match &self.gd_final_dir {
                    Some(fd) => {
                        let mut staged = staged;
                        if let Some(seed) = self.plan.global_keyed_seed {
                            let mut kr = Rng::new(seed ^ (ord as u64).wrapping_mul(0x9E37_79B9_7F4A_7C15));
                            let mut key = [0u8; 32];
                            kr.fill(&mut key);
                            let keyed = mdb_shard::MDBShardFile::load_from_file(&staged).and_then(|sf| {
                                sf.export_as_keyed_shard(staged.parent().unwrap(), MerkleHash::from(&key), std::time::Duration::from_secs(3600), false, kr.chance(1, 2), kr.chance(1, 2))
                            });
                            match keyed {
                                Ok(k) => staged = k.path.clone(),
                                Err(e) => return_err = Some(CasClientError::Other(format!("harness: keyed export of a global-dedup shard failed: {e}"))),
                            }
                        }
                        let dest = fd.join(staged.file_name().unwrap());
                        let publish = || -> std::io::Result<()> {
                            if !dest.exists() {
                                std::fs::create_dir_all(fd)?;
                                let tmp = fd.join(format!(".xv-publish-{ord}.tmp"));
                                std::fs::copy(&staged, &tmp)?;
                                std::fs::rename(&tmp, &dest)?;
                            }
                            Ok(())
                        };
                        match publish() {
                            Ok(()) => Ok(Some(dest)),
                            Err(e) => Err(CasClientError::IOError(e)),
                        }
                    },
                    None => Ok(Some(staged)),
                },
                other => other,
            }
        };
        let r = match return_err {
            Some(e) => Err(e),
            None => r,
        };
        let mut e = self.ev(Op::QueryGlobal, false, ord, chunk_hash);
        e.ok = r.is_ok();
        e.ret = matches!(r, Ok(Some(_))) as usize;
        self.log.push(e);
        r
    }
}

impl ShardClientInterface for MonitoredClient {}
impl Client for MonitoredClient {}
