//! C17: file reconstruction through RemoteClient against an in-process HTTP range server.
use std::collections::HashMap;
use std::io::{BufRead, BufReader, Cursor, Write};
use std::net::{TcpListener, TcpStream};
use std::sync::atomic::{AtomicU64, Ordering};
use std::sync::{Arc, Mutex, RwLock};

use cas_client::remote_client::RemoteClient;
use cas_client::{CacheConfig, FileProvider, OutputProvider};
use cas_object::{CasObject, CompressionScheme};
use cas_types::{CASReconstructionFetchInfo, CASReconstructionTerm, ChunkRange, FileRange, HexMerkleHash, HttpRange};
use merkledb::aggregate_hashes::cas_node_hash;
use merklehash::{compute_data_hash, MerkleHash};
use xet_threadpool::ThreadPool;
use xvcommon::{case_iter, json, witness_base, Args, Report, Rng, Value};

const P: &str = "C17";

// ------------------------------------------------------------------------------------------------
// tiny HTTP/1.1 range server

pub struct Server {
    pub port: u16,
    blobs: Arc<RwLock<HashMap<String, Arc<Vec<u8>>>>>,
    pub requests: Arc<AtomicU64>,
    delay: Arc<Mutex<Option<Rng>>>,
}

impl Server {
    pub fn start() -> Arc<Server> {
        let listener = TcpListener::bind("127.0.0.1:0").expect("bind");
        let port = listener.local_addr().unwrap().port();
        let s = Arc::new(Server {
            port,
            blobs: Arc::new(RwLock::new(HashMap::new())),
            requests: Arc::new(AtomicU64::new(0)),
            delay: Arc::new(Mutex::new(None)),
        });
        let s2 = s.clone();
        std::thread::spawn(move || {
            for conn in listener.incoming() {
                let Ok(conn) = conn else { continue };
                let s3 = s2.clone();
                std::thread::spawn(move || s3.serve(conn));
            }
        });
        s
    }
    pub fn set_blobs(&self, m: HashMap<String, Arc<Vec<u8>>>) {
        *self.blobs.write().unwrap() = m;
    }
    pub fn set_delay(&self, seed: Option<u64>) {
        *self.delay.lock().unwrap() = seed.map(Rng::new);
    }
    fn serve(&self, conn: TcpStream) {
        let _ = conn.set_nodelay(true);
        let mut rd = BufReader::new(conn.try_clone().expect("clone"));
        let mut wr = conn;
        loop {
            let mut line = String::new();
            if rd.read_line(&mut line).unwrap_or(0) == 0 {
                return;
            }
            let parts: Vec<&str> = line.split_whitespace().collect();
            if parts.len() < 2 {
                return;
            }
            let path = parts[1].to_string();
            let mut range: Option<(usize, usize)> = None;
            loop {
                let mut h = String::new();
                if rd.read_line(&mut h).unwrap_or(0) == 0 {
                    return;
                }
                let ht = h.trim();
                if ht.is_empty() {
                    break;
                }
                let lower = ht.to_ascii_lowercase();
                if let Some(v) = lower.strip_prefix("range:") {
                    if let Some(v) = v.trim().strip_prefix("bytes=") {
                        let mut it = v.split('-');
                        if let (Some(a), Some(b)) = (it.next(), it.next()) {
                            if let (Ok(a), Ok(b)) = (a.trim().parse::<usize>(), b.trim().parse::<usize>()) {
                                range = Some((a, b));
                            }
                        }
                    }
                }
            }
            self.requests.fetch_add(1, Ordering::SeqCst);
            let us = {
                let mut g = self.delay.lock().unwrap();
                g.as_mut().map(|r| if r.chance(1, 2) { 0 } else { r.below(3000) }).unwrap_or(0)
            };
            if us > 0 {
                std::thread::sleep(std::time::Duration::from_micros(us));
            }
            // path: /x/<id>/...
            let id = path.split('/').nth(2).unwrap_or("").to_string();
            let blob = self.blobs.read().unwrap().get(&id).cloned();
            let resp: Vec<u8> = match (blob, range) {
                (Some(b), Some((a, e))) if a <= e && e < b.len() => {
                    let body = &b[a..=e];
                    let mut r = format!("HTTP/1.1 206 Partial Content\r\nContent-Length: {}\r\nContent-Range: bytes {a}-{e}/{}\r\nContent-Type: application/octet-stream\r\n\r\n", body.len(), b.len()).into_bytes();
                    r.extend_from_slice(body);
                    r
                },
                (Some(b), None) => {
                    let mut r = format!("HTTP/1.1 200 OK\r\nContent-Length: {}\r\n\r\n", b.len()).into_bytes();
                    r.extend_from_slice(&b);
                    r
                },
                (Some(_), Some(_)) => b"HTTP/1.1 416 Range Not Satisfiable\r\nContent-Length: 0\r\n\r\n".to_vec(),
                (None, _) => b"HTTP/1.1 404 Not Found\r\nContent-Length: 0\r\n\r\n".to_vec(),
            };
            if wr.write_all(&resp).is_err() {
                return;
            }
            let _ = wr.flush();
        }
    }
}

// ------------------------------------------------------------------------------------------------

struct Xorb {
    hash: MerkleHash,
    id: String,
    chunks: Vec<Vec<u8>>,
    /// end offsets of the serialized chunks
    ser_bounds: Vec<u32>,
}

fn gen_xorb(rng: &mut Rng, idx: usize) -> (Xorb, Vec<u8>) {
    let n = rng.urange(1, 30);
    let mut chunks = Vec::new();
    let mut data = Vec::new();
    let mut cb = Vec::new();
    let mut hl = Vec::new();
    for _ in 0..n {
        let l = match rng.below(5) {
            0 => rng.urange(1, 8),
            1 => rng.urange(1000, 3000),
            _ => rng.urange(1, 400),
        };
        let c = rng.bytes(l);
        let h = compute_data_hash(&c);
        data.extend_from_slice(&c);
        cb.push((h, data.len() as u32));
        hl.push((h, l));
        chunks.push(c);
    }
    let hash = cas_node_hash(&hl);
    let scheme = *rng.pick(&[Some(CompressionScheme::None), Some(CompressionScheme::LZ4), None]);
    let mut cur = Cursor::new(Vec::new());
    let (cas, _) = CasObject::serialize(&mut cur, &hash, &data, &cb, scheme).expect("serialize");
    (
        Xorb {
            hash,
            id: format!("xorb{idx}"),
            chunks,
            ser_bounds: cas.info.chunk_boundary_offsets.clone(),
        },
        cur.into_inner(),
    )
}

struct Plan {
    terms: Vec<CASReconstructionTerm>,
    term_xorb: Vec<usize>,
    fetch: HashMap<HexMerkleHash, Vec<CASReconstructionFetchInfo>>,
    expected: Vec<u8>,
    term_starts: Vec<usize>,
    same_url: bool,
    n_fetch_ranges: usize,
    repeated_xorbs: bool,
    wider_fetch: bool,
}

fn gen_plan(rng: &mut Rng, xorbs: &[Xorb], port: u16, shared_url: bool) -> Plan {
    let nterms = match rng.below(5) {
        0 => 1,
        1 => rng.urange(1, 3),
        _ => rng.urange(1, 60),
    };
    // `--shared-url` (C20's use-site job): every fetch range of a xorb sits behind the same url, so the
    // range-download singleflight key is the only thing keeping concurrent downloads apart
    let same_url = rng.chance(1, 6) || shared_url;
    let mut terms = Vec::new();
    let mut term_xorb = Vec::new();
    let mut expected = Vec::new();
    let mut term_starts = Vec::new();
    let mut fetch: HashMap<HexMerkleHash, Vec<CASReconstructionFetchInfo>> = HashMap::new();
    let mut wider_fetch = false;
    for _ in 0..nterms {
        let xi = rng.usize_below(xorbs.len());
        let x = &xorbs[xi];
        let n = x.chunks.len();
        let a = rng.usize_below(n);
        let b = rng.urange(a + 1, n);
        let len: usize = x.chunks[a..b].iter().map(|c| c.len()).sum();
        term_starts.push(expected.len());
        for c in &x.chunks[a..b] {
            expected.extend_from_slice(c);
        }
        terms.push(CASReconstructionTerm {
            hash: x.hash.into(),
            unpacked_length: len as u32,
            range: ChunkRange { start: a as u32, end: b as u32 },
        });
        term_xorb.push(xi);
        // a fetch range containing the term range
        let list = fetch.entry(x.hash.into()).or_default();
        let already = list.iter().any(|f| f.range.start as usize <= a && f.range.end as usize >= b);
        if !already || rng.chance(1, 4) {
            let (fa, fb) = if rng.chance(1, 2) {
                (a, b)
            } else {
                wider_fetch = true;
                (a.saturating_sub(rng.urange(0, 3)), (b + rng.urange(0, 3)).min(n))
            };
            if !list.iter().any(|f| f.range.start as usize == fa && f.range.end as usize == fb) {
                let bs = if fa == 0 { 0 } else { x.ser_bounds[fa - 1] };
                let be = x.ser_bounds[fb - 1] - 1;
                let url = if same_url { format!("http://127.0.0.1:{port}/x/{}/blob", x.id) } else { format!("http://127.0.0.1:{port}/x/{}/r{fa}-{fb}", x.id) };
                list.push(CASReconstructionFetchInfo {
                    range: ChunkRange { start: fa as u32, end: fb as u32 },
                    url,
                    url_range: HttpRange { start: bs, end: be },
                });
            }
        }
    }
    // the order of fetch ranges of a xorb is arbitrary
    for l in fetch.values_mut() {
        rng.shuffle(l);
    }
    let n_fetch_ranges = fetch.values().map(|l| l.len()).sum();
    let mut seen = std::collections::HashSet::new();
    let repeated_xorbs = term_xorb.iter().any(|x| !seen.insert(*x));
    Plan {
        terms,
        term_xorb,
        fetch,
        expected,
        term_starts,
        same_url,
        n_fetch_ranges,
        repeated_xorbs,
        wider_fetch,
    }
}

/// what the reconstruction API would answer for byte range [s,e): the covering terms and the offset into the first
fn plan_for_range(p: &Plan, r: Option<(usize, usize)>) -> (Vec<CASReconstructionTerm>, u64) {
    match r {
        None => (p.terms.clone(), 0),
        Some((s, e)) => {
            let n = p.terms.len();
            let ends: Vec<usize> = (0..n).map(|i| p.term_starts[i] + p.terms[i].unpacked_length as usize).collect();
            let i0 = (0..n).find(|i| ends[*i] > s).unwrap_or(n - 1);
            let i1 = (0..n).rev().find(|i| p.term_starts[*i] < e).unwrap_or(i0).max(i0);
            (p.terms[i0..=i1].to_vec(), (s - p.term_starts[i0]) as u64)
        },
    }
}

/// soft RLIMIT_FSIZE of this process (None = unlimited); returns the previous soft limit
fn set_fsize_limit(l: Option<u64>) -> u64 {
    unsafe {
        let mut cur = libc::rlimit { rlim_cur: 0, rlim_max: 0 };
        libc::getrlimit(libc::RLIMIT_FSIZE, &mut cur);
        let old = cur.rlim_cur;
        cur.rlim_cur = match l {
            Some(v) => v.min(cur.rlim_max),
            None => cur.rlim_max,
        };
        libc::setrlimit(libc::RLIMIT_FSIZE, &cur);
        old
    }
}

fn restore_fsize_limit(old: u64) {
    unsafe {
        let mut cur = libc::rlimit { rlim_cur: 0, rlim_max: 0 };
        libc::getrlimit(libc::RLIMIT_FSIZE, &mut cur);
        cur.rlim_cur = old;
        libc::setrlimit(libc::RLIMIT_FSIZE, &cur);
    }
}

/// One plan of more than 4 GiB (repeated whole-xorb terms of 16 MiB, disk cache on so that only the first term goes
/// over the network), written to /dev/null: the reported length must be the plan's length (both writers).
fn run_huge(args: &Args, rep: &mut Report, server: &Server, tp: &Arc<ThreadPool>) {
    let mut rng = Rng::new(args.u64("seed", 1) ^ 0x4617);
    let n_chunks = 128usize;
    let mut data = Vec::new();
    let mut cb = Vec::new();
    let mut hl = Vec::new();
    for _ in 0..n_chunks {
        let c = rng.bytes(131072);
        let h = compute_data_hash(&c);
        data.extend_from_slice(&c);
        cb.push((h, data.len() as u32));
        hl.push((h, c.len()));
    }
    let hash = cas_node_hash(&hl);
    let mut cur = Cursor::new(Vec::new());
    let (cas, _) = CasObject::serialize(&mut cur, &hash, &data, &cb, Some(CompressionScheme::None)).expect("serialize");
    let ser = cur.into_inner();
    let mut blobs = HashMap::new();
    blobs.insert("huge".to_string(), Arc::new(ser));
    server.set_blobs(blobs);
    server.set_delay(None);
    let n_terms = 257 + rng.usize_below(8);
    let terms: Vec<CASReconstructionTerm> = (0..n_terms)
        .map(|_| CASReconstructionTerm { hash: hash.into(), unpacked_length: data.len() as u32, range: ChunkRange { start: 0, end: n_chunks as u32 } })
        .collect();
    let mut fetch: HashMap<HexMerkleHash, Vec<CASReconstructionFetchInfo>> = HashMap::new();
    fetch.insert(
        hash.into(),
        vec![CASReconstructionFetchInfo {
            range: ChunkRange { start: 0, end: n_chunks as u32 },
            url: format!("http://127.0.0.1:{}/x/huge/blob", server.port),
            url_range: HttpRange { start: 0, end: cas.info.chunk_boundary_offsets[n_chunks - 1] - 1 },
        }],
    );
    let tmp = tempfile::tempdir().unwrap();
    let cache_cfg = Some(CacheConfig { cache_directory: tmp.path().join("cache"), cache_size: 1 << 30 });
    let client = Arc::new(RemoteClient::new(tp.clone(), "http://127.0.0.1:1", None, &None, &cache_cfg, tmp.path().join("shard-cache"), false));
    let want = n_terms as u64 * data.len() as u64;
    for writer in ["par", "seq"] {
        let provider = OutputProvider::File(FileProvider::new(std::path::PathBuf::from("/dev/null")));
        let fi = Arc::new(fetch.clone());
        let c = client.clone();
        let t2 = terms.clone();
        let par = writer == "par";
        let res = tp.external_run_async_task(async move {
            if par {
                c.reconstruct_file_to_writer_parallel(t2, fi, 0, None, &provider, None).await
            } else {
                c.reconstruct_file_to_writer(t2, fi, 0, None, &provider, None).await
            }
        });
        let mut w = witness_base(args, "recon", 0);
        w["mode"] = json!("plan larger than 4 GiB, output /dev/null");
        w["terms"] = json!(n_terms);
        w["writer"] = json!(writer);
        match res {
            Ok(Ok(n)) if n == want => rep.count(P, "plans_larger_than_4gib_length_correct", 1),
            Ok(Ok(n)) => rep.violation(P, &format!("recon-length-report-{writer}-over-4gib"), &format!("{writer} writer reported {n} bytes for a plan of {want} bytes"), w),
            Ok(Err(e)) => rep.violation(P, "recon-error-on-valid-plan", &format!("reconstruction of a valid plan (> 4 GiB) failed: {e}"), w),
            Err(e) => rep.violation(P, "recon-panic", &format!("reconstruction task failed to join: {e}"), w),
        }
        rep.case(P, Some(format!("huge|{writer}")));
    }
}

pub fn run(args: &Args, rep: &mut Report) {
    run_inner(args, rep);
    // C20's use-site job: the same monitor, reported under the property whose anchor (the
    // range-download singleflight key in cas_client/src/remote_client.rs) it exercises
    if args.has("shared-url") {
        if let Some(p) = rep.props.remove(P) {
            rep.props.insert("C20".to_string(), p);
        }
    }
}

fn run_inner(args: &Args, rep: &mut Report) {
    let server = Server::start();
    let tp = Arc::new(ThreadPool::new().expect("threadpool"));
    // a write beyond RLIMIT_FSIZE must come back as an error (EFBIG), not kill the process
    unsafe {
        libc::signal(libc::SIGXFSZ, libc::SIG_IGN);
    }
    if args.has("huge-plan") {
        run_huge(args, rep, &server, &tp);
        return;
    }
    for (k, mut rng) in case_iter(args, 0xC17, 40) {
        let nx = rng.urange(1, 6);
        let mut blobs = HashMap::new();
        let mut xorbs = Vec::new();
        for i in 0..nx {
            let (x, ser) = gen_xorb(&mut rng, i);
            blobs.insert(x.id.clone(), Arc::new(ser));
            xorbs.push(x);
        }
        server.set_blobs(blobs);
        server.set_delay(if rng.chance(2, 3) { Some(rng.next_u64()) } else { None });
        let plan = gen_plan(&mut rng, &xorbs, server.port, args.has("shared-url"));
        let flen = plan.expected.len();
        let tmp = tempfile::tempdir().unwrap();
        let cache_mode = rng.below(3); // 0 off, 1 large, 2 small
        let total_fetch: u64 = plan.n_fetch_ranges as u64 * 4000;
        let cache_cfg = match cache_mode {
            0 => None,
            1 => Some(CacheConfig { cache_directory: tmp.path().join("cache"), cache_size: 1 << 30 }),
            _ => Some(CacheConfig { cache_directory: tmp.path().join("cache"), cache_size: rng.range(4000, total_fetch.max(4001)) }),
        };
        let client = Arc::new(RemoteClient::new(tp.clone(), "http://127.0.0.1:1", None, &None, &cache_cfg, tmp.path().join("shard-cache"), false));
        // byte ranges
        let mut ranges: Vec<Option<(usize, usize)>> = vec![None];
        if flen > 0 {
            ranges.push(Some((0, flen)));
            let a = rng.usize_below(flen);
            ranges.push(Some((a, a + 1)));
            for _ in 0..2 {
                let a = rng.usize_below(flen);
                ranges.push(Some((a, rng.urange(a + 1, flen))));
            }
            if plan.terms.len() >= 2 {
                // start and end exactly at / next to term boundaries
                let t = rng.urange(1, plan.terms.len() - 1);
                let bnd = plan.term_starts[t];
                ranges.push(Some((bnd, flen)));
                ranges.push(Some((0, bnd)));
                if bnd + 1 < flen {
                    ranges.push(Some((bnd.saturating_sub(1), bnd + 1)));
                }
            }
        }
        let w = |what: &str, r: &Option<(usize, usize)>, writer: &str, phase: &str| -> Value {
            let mut w = witness_base(args, "recon", k);
            w["terms"] = json!(plan.terms.iter().zip(plan.term_xorb.iter()).map(|(t, x)| format!("x{x}[{},{})={}", t.range.start, t.range.end, t.unpacked_length)).collect::<Vec<_>>());
            w["fetch_ranges"] = json!(plan.n_fetch_ranges);
            w["same_url_per_xorb"] = json!(plan.same_url);
            w["cache_mode"] = json!(["off", "large", "small"][cache_mode as usize]);
            w["byte_range"] = json!(r);
            w["writer"] = json!(writer);
            w["phase"] = json!(phase);
            w["what"] = json!(what);
            w
        };
        let mut ok_runs = 0u64;
        #[allow(unused_assignments)]
        let mut failed = false;
        let mut warm_no_net = 0u64;
        let phases: &[&str] = if cache_mode == 0 { &["nocache"] } else { &["cold", "warm"] };
        'outer: for (ri, r) in ranges.iter().enumerate() {
            let (terms, offset) = plan_for_range(&plan, *r);
            let want: &[u8] = match r {
                None => &plan.expected,
                Some((s, e)) => &plan.expected[*s..*e],
            };
            for writer in ["seq", "par"] {
                for phase in phases {
                    let out = tmp.path().join(format!("out-{ri}-{writer}-{phase}"));
                    let provider = OutputProvider::File(FileProvider::new(out.clone()));
                    let fi = Arc::new(plan.fetch.clone());
                    let br = r.map(|(s, e)| FileRange { start: s as u64, end: e as u64 });
                    let c = client.clone();
                    let t2 = terms.clone();
                    let before = server.requests.load(Ordering::SeqCst);
                    let par = writer == "par";
                    let res = tp.external_run_async_task(async move {
                        if par {
                            c.reconstruct_file_to_writer_parallel(t2, fi, offset, br, &provider, None).await
                        } else {
                            c.reconstruct_file_to_writer(t2, fi, offset, br, &provider, None).await
                        }
                    });
                    let nreq = server.requests.load(Ordering::SeqCst) - before;
                    let sig_extra = if plan.same_url { "-same-url" } else { "" };
                    match res {
                        Err(e) => {
                            rep.violation(P, &format!("recon-panic{sig_extra}"), &format!("reconstruction task failed to join: {e}"), w("panic", r, writer, phase));
                            failed = true;
                            break 'outer;
                        },
                        Ok(Err(e)) => {
                            rep.violation(P, &format!("recon-error-on-valid-plan{sig_extra}"), &format!("reconstruction of a valid plan failed: {e}"), w(&format!("{e}"), r, writer, phase));
                            failed = true;
                            break 'outer;
                        },
                        Ok(Ok(nrep)) => {
                            let got = std::fs::read(&out).unwrap_or_default();
                            if got != want {
                                let first = got.iter().zip(want.iter()).position(|(a, b)| a != b).unwrap_or(got.len().min(want.len()));
                                rep.violation(
                                    P,
                                    &format!("recon-bytes-differ-{writer}{sig_extra}"),
                                    &format!("{writer} writer ({phase}): output of {} bytes differs from the expected {} bytes at offset {first}", got.len(), want.len()),
                                    w("bytes differ", r, writer, phase),
                                );
                                failed = true;
                                break 'outer;
                            }
                            if nrep != want.len() as u64 {
                                rep.violation(P, &format!("recon-length-report-{writer}"), &format!("reported {nrep} bytes, wrote {}", want.len()), w("length", r, writer, phase));
                                failed = true;
                                break 'outer;
                            }
                            ok_runs += 1;
                            if *phase == "warm" && nreq == 0 && !want.is_empty() {
                                warm_no_net += 1;
                            }
                        },
                    }
                    let _ = std::fs::remove_file(&out);
                }
            }
        }
        // output file that cannot take all the bytes: with a file-size limit below the requested length the kernel cuts the
        // write that crosses it short and fails the next one.  A reconstruction that returns Ok must have written
        // everything, so under such a limit only an error is acceptable.  (cache off: the limit is process-wide)
        if cache_mode == 0 && !failed && flen >= 64 && plan.terms.len() >= 2 {
            let limit = rng.urange(1, flen - 1);
            for writer in ["seq", "par"] {
                let out = tmp.path().join(format!("out-limited-{writer}"));
                let provider = OutputProvider::File(FileProvider::new(out.clone()));
                let fi = Arc::new(plan.fetch.clone());
                let c = client.clone();
                let t2 = plan.terms.clone();
                let par = writer == "par";
                let old = set_fsize_limit(Some(limit as u64));
                let res = tp.external_run_async_task(async move {
                    if par {
                        c.reconstruct_file_to_writer_parallel(t2, fi, 0, None, &provider, None).await
                    } else {
                        c.reconstruct_file_to_writer(t2, fi, 0, None, &provider, None).await
                    }
                });
                restore_fsize_limit(old);
                match res {
                    Ok(Ok(nrep)) => {
                        let got = std::fs::read(&out).map(|v| v.len()).unwrap_or(0);
                        rep.violation(
                            P,
                            &format!("recon-ok-despite-short-write-{writer}"),
                            &format!("{writer} writer: the output file could take only {limit} of {flen} bytes (file-size limit), yet the reconstruction returned Ok({nrep}); the file holds {got} bytes"),
                            w("short write", &None, writer, "limited"),
                        );
                        failed = true;
                    },
                    Ok(Err(_)) => rep.count(P, "short_write_runs_rejected", 1),
                    Err(e) => {
                        rep.violation(P, "recon-panic", &format!("reconstruction task failed to join under a file-size limit: {e}"), w("panic", &None, writer, "limited"));
                        failed = true;
                    },
                }
                let _ = std::fs::remove_file(&out);
            }
        }
        rep.count(P, "reconstructions_compared", ok_runs);
        rep.count(P, "warm_runs_served_without_network", warm_no_net);
        rep.count(P, &format!("cache_{}", ["off", "large", "small"][cache_mode as usize]), 1);
        if plan.same_url {
            rep.count(P, "plans_with_one_url_per_xorb", 1);
        }
        if plan.repeated_xorbs {
            rep.count(P, "plans_with_repeated_xorbs", 1);
        }
        if plan.wider_fetch {
            rep.count(P, "plans_with_fetch_ranges_wider_than_terms", 1);
        }
        let sig = format!(
            "t{}|x{nx}|fr{}|su{}|c{cache_mode}|rep{}|wide{}",
            usize::BITS - plan.terms.len().leading_zeros(),
            usize::BITS - plan.n_fetch_ranges.leading_zeros(),
            plan.same_url as u8,
            plan.repeated_xorbs as u8,
            plan.wider_fetch as u8
        );
        rep.case(P, if !failed && plan.terms.len() >= 2 { Some(sig) } else { None });
        if rep.wants_sample(P) && !failed && plan.terms.len() >= 2 {
            rep.sample(P, w("sample", &None, "both", "all"));
        }
    }
    rep.count(P, "http_requests_served", server.requests.load(Ordering::SeqCst));
}
