fn main(){}
