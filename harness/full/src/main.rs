//! xv_full: engines that need the full client stack (sessions, chunk cache, reconstruction,
//! singleflight, crash victims).
use xvcommon::{Args, Report};

mod e_cache;
mod e_crash;
mod e_recon;
mod e_session;
mod e_sflight;
mod monclient;
mod recipes;

/// re-export for e_crash
pub fn e_cache_walk(root: &std::path::Path) -> Vec<(std::path::PathBuf, u64)> {
    e_cache::walk_cache_files(root)
}

fn main() {
    xvcommon::quiet_panics();
    let args = Args::parse();
    match args.pos(0).unwrap_or("") {
        "crash_prep" => return e_crash::prep(&args),
        "crash_victim" => return e_crash::victim(&args),
        "crash_check" => return e_crash::check(&args),
        _ => {},
    }
    let mut rep = Report::new();
    let engine = args.pos(0).unwrap_or("").to_string();
    match engine.as_str() {
        "session" => e_session::run(&args, &mut rep),
        "faults" => e_session::run_faults(&args, &mut rep),
        "recon" => e_recon::run(&args, &mut rep),
        "sflight" => e_sflight::run(&args, &mut rep),
        "cache_seq" => e_cache::run_seq(&args, &mut rep),
        "cache_fault" => e_cache::run_fault(&args, &mut rep),
        "cache_conc" => e_cache::run_conc(&args, &mut rep),
        "cache_enum" => e_cache::run_enum(&args, &mut rep),
        other => {
            eprintln!("unknown engine {other:?}");
            std::process::exit(2);
        },
    }
    rep.finish();
}
