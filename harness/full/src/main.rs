//! xv_full: engines that need the full client stack (sessions, chunk cache, reconstruction,
//! singleflight, crash victims).
use xvcommon::{Args, Report};

mod e_cache;
mod e_recon;
mod e_session;
mod e_sflight;
mod monclient;
mod recipes;

fn main() {
    xvcommon::quiet_panics();
    let args = Args::parse();
    let mut rep = Report::new();
    let engine = args.pos(0).unwrap_or("").to_string();
    match engine.as_str() {
        "session" => e_session::run(&args, &mut rep),
        "faults" => e_session::run_faults(&args, &mut rep),
        "recon" => e_recon::run(&args, &mut rep),
        "sflight" => e_sflight::run(&args, &mut rep),
        "cache_seq" => e_cache::run_seq(&args, &mut rep),
        "cache_fault" => e_cache::run_fault(&args, &mut rep),
        "cache_conc" => e_cache::run_conc(&args, &mut rep),
        other => {
            eprintln!("unknown engine {other:?}");
            std::process::exit(2);
        },
    }
    rep.finish();
}
