//! Upload/download session engine: drives real FileUploadSession / FileDownloader histories against a
//! local store through the MonitoredClient and runs the monitors of C01 C02 C03 C11 C14 C15 C16.
use std::collections::{BTreeSet, HashMap, HashSet};
use std::io::Cursor;
use std::path::PathBuf;
use std::sync::Arc;

use cas_client::{CacheConfig, Client, FileProvider, OutputProvider};
use cas_object::CasObject;
use cas_types::FileRange;
use data::configurations::{DataConfig, Endpoint, GlobalDedupPolicy, ShardConfig, TranslatorConfig};
use data::{FileDownloader, FileUploadSession, PointerFile};
use deduplication::DeduplicationMetrics;
use mdb_shard::cas_structs::MDBCASInfo;
use mdb_shard::file_structs::MDBFileInfo;
use mdb_shard::MDBShardInfo;
use merklehash::MerkleHash;
use xet_threadpool::ThreadPool;
use xvcommon::refs::{self, H};
use xvcommon::{case_iter, hexb, json, witness_base, Args, Report, Rng, Value};

use crate::monclient::{Event, Log, MonitoredClient, Op, Plan};
use crate::recipes::{feed_cuts, gen_recipe, materialize, GenCtx, Seg};

pub fn hb(m: &MerkleHash) -> H {
    let mut h = [0u8; 32];
    h.copy_from_slice(m.as_bytes());
    h
}
pub fn mh(h: &H) -> MerkleHash {
    MerkleHash::from(h)
}

#[derive(Clone, Debug)]
pub struct Limits {
    pub target: usize,
    pub min_chunk: usize,
    pub max_chunk: usize,
    pub max_xorb_bytes: usize,
    pub max_xorb_chunks: usize,
    pub ingestion_block: usize,
    pub frag_prevention_off: bool,
}

fn env_usize(name: &str, default: usize) -> usize {
    std::env::var(name).ok().and_then(|s| s.parse().ok()).unwrap_or(default)
}

/// The limits the *harness* put into the environment, cross-checked against what the code reads.
pub fn limits() -> Result<Limits, String> {
    let target = *deduplication::constants::TARGET_CHUNK_SIZE;
    let want_target = env_usize("XV_EXPECT_TARGET", 64 * 1024);
    if target != want_target {
        return Err(format!("chunk target in effect is {target}, harness expected {want_target} (wrong build profile?)"));
    }
    let l = Limits {
        target,
        min_chunk: target / 8,
        max_chunk: target * 2,
        max_xorb_bytes: env_usize("HF_XET_MAX_XORB_BYTES", 64 * 1024 * 1024),
        max_xorb_chunks: env_usize("HF_XET_MAX_XORB_CHUNKS", 8 * 1024),
        ingestion_block: env_usize("HF_XET_INGESTION_BLOCK_SIZE", 8 * 1024 * 1024),
        frag_prevention_off: env_usize("HF_XET_NRANGES_IN_STREAMING_FRAGMENTATION_ESTIMATOR", 128) >= 100_000,
    };
    if *deduplication::constants::MAX_XORB_BYTES != l.max_xorb_bytes || *deduplication::constants::MAX_XORB_CHUNKS != l.max_xorb_chunks {
        return Err("xorb limits in effect differ from the environment".into());
    }
    Ok(l)
}

#[derive(Clone)]
pub struct FileSpec {
    pub recipe: Vec<Seg>,
    pub bytes: Arc<Vec<u8>>,
    pub cuts: Vec<usize>,
    pub cut_kind: &'static str,
    /// global index in the history's file list
    pub gidx: usize,
}

#[derive(Clone)]
pub struct SessionSpec {
    pub files: Vec<FileSpec>,
    pub workers: usize,
    pub concurrent: bool,
    /// use a fresh shard-cache directory and a store client that answers global-dedup queries
    pub fresh_cache_global_dedup: bool,
    pub delay_seed: Option<u64>,
    pub salt: [u8; 32],
    /// which shard cache directory (index) this session uses
    pub cache_idx: usize,
    /// reach the shard cache through another path (a symlink to the same directory): the process-wide
    /// manager cache is keyed by path, so this session gets its own ShardFileManager over the shared
    /// directory, as a second process would
    pub cache_alias: Option<usize>,
    /// the store answers every successful shard upload with "already exists" (Ok(false)), as a server does
    /// when a retried request arrives twice
    pub shard_reply_exists: bool,
    /// global-dedup shards are handed out HMAC-keyed and without file records, as the server does
    pub global_keyed_seed: Option<u64>,
    /// a dry-run session over the same files and shard cache runs first (as `hf upload --dry-run` then the real upload)
    pub dry_run_first: bool,
}

pub struct FileOutcome {
    pub result: Result<(PointerFile, DeduplicationMetrics), String>,
}

pub struct SessionOutcome {
    pub files: Vec<FileOutcome>,
    pub finalize: Option<Result<(DeduplicationMetrics, Vec<MDBFileInfo>), String>>,
    pub log: Vec<Event>,
    pub setup_error: Option<String>,
}

#[derive(Clone, Copy, PartialEq, Eq, Debug)]
pub enum ErrPolicy {
    AbandonSession,
    FinalizeRest,
}

pub struct Dirs {
    pub root: PathBuf,
}

impl Dirs {
    pub fn store(&self) -> PathBuf {
        self.root.join("store")
    }
    pub fn cache(&self, i: usize) -> PathBuf {
        self.root.join(format!("shard-cache-{i}"))
    }
    pub fn cache_via(&self, i: usize, alias: Option<usize>) -> PathBuf {
        match alias {
            None => self.cache(i),
            Some(a) => {
                let real = self.cache(i);
                let _ = std::fs::create_dir_all(&real);
                let link = self.root.join(format!("cache-{i}-alias-{a}"));
                if std::fs::symlink_metadata(&link).is_err() {
                    let _ = std::os::unix::fs::symlink(&real, &link);
                }
                link
            },
        }
    }
    pub fn session_dir(&self) -> PathBuf {
        self.root.join("shard-session")
    }
}

pub fn make_config(d: &Dirs, cache_idx: usize, salt: [u8; 32], global: bool) -> Arc<TranslatorConfig> {
    make_config_alias(d, cache_idx, None, salt, global)
}

pub fn make_config_alias(d: &Dirs, cache_idx: usize, alias: Option<usize>, salt: [u8; 32], global: bool) -> Arc<TranslatorConfig> {
    Arc::new(TranslatorConfig {
        data_config: DataConfig {
            endpoint: Endpoint::FileSystem(d.store()),
            compression: None,
            auth: None,
            prefix: "default".into(),
            cache_config: CacheConfig {
                cache_directory: d.root.join("chunk-cache"),
                cache_size: 0,
            },
            staging_directory: None,
        },
        shard_config: ShardConfig {
            prefix: "default-merkledb".into(),
            cache_directory: d.cache_via(cache_idx, alias),
            session_directory: d.session_dir(),
            global_dedup_policy: if global { GlobalDedupPolicy::Always } else { GlobalDedupPolicy::Never },
            repo_salt: salt,
        },
        repo_info: None,
    })
}

/// A dry-run session (FileUploadSession::dry_run: nothing is sent to the store, no shard may reach the shard cache)
/// over the same shard cache, cleaning `files`.  Returns Err(text) if it could not be run / failed.
pub fn run_dry_session(d: &Dirs, spec: &SessionSpec) -> Result<(), String> {
    let rt = tokio::runtime::Builder::new_multi_thread().worker_threads(2).enable_all().build().expect("runtime");
    let base = make_config_alias(d, spec.cache_idx, spec.cache_alias, spec.salt, false);
    let config = Arc::new(TranslatorConfig {
        data_config: DataConfig {
            // a server endpoint that is never contacted: in dry-run mode the remote client sends nothing
            endpoint: Endpoint::Server("http://127.0.0.1:9".into()),
            compression: None,
            auth: None,
            prefix: "default".into(),
            cache_config: CacheConfig {
                cache_directory: d.root.join("chunk-cache-dry"),
                cache_size: 0,
            },
            staging_directory: None,
        },
        shard_config: ShardConfig {
            prefix: base.shard_config.prefix.clone(),
            cache_directory: base.shard_config.cache_directory.clone(),
            session_directory: d.root.join("dry-session"),
            global_dedup_policy: GlobalDedupPolicy::Never,
            repo_salt: spec.salt,
        },
        repo_info: None,
    });
    let _ = std::fs::create_dir_all(d.root.join("dry-session"));
    let files = spec.files.clone();
    let r = rt.block_on(async move {
        let tp = ThreadPool::from_current_runtime();
        let session = FileUploadSession::dry_run(config, tp, None).await.map_err(|e| format!("dry_run: {e}"))?;
        for f in files {
            let mut cleaner = session.start_clean(format!("dry{}", f.gidx));
            cleaner.add_data(&f.bytes[..]).await.map_err(|e| format!("dry add_data: {e}"))?;
            cleaner.finish().await.map_err(|e| format!("dry finish: {e}"))?;
        }
        session.finalize().await.map_err(|e| format!("dry finalize: {e}"))?;
        Ok::<(), String>(())
    });
    rt.shutdown_timeout(std::time::Duration::from_secs(5));
    let _ = std::fs::remove_dir_all(d.root.join("dry-session"));
    r
}

/// Run one upload session on a fresh runtime with `workers` worker threads.
pub fn run_session(d: &Dirs, spec: &SessionSpec, plan: Plan, policy: ErrPolicy) -> SessionOutcome {
    let rt = tokio::runtime::Builder::new_multi_thread()
        .worker_threads(spec.workers)
        .max_blocking_threads(32)
        .enable_all()
        .build()
        .expect("runtime");
    let log = Log::new();
    let out = {
        let log = log.clone();
        let d_store = d.store();
        let cache_dir = d.cache_via(spec.cache_idx, spec.cache_alias);
        let config = make_config_alias(d, spec.cache_idx, spec.cache_alias, spec.salt, spec.fresh_cache_global_dedup);
        let spec = spec.clone();
        let handle = rt.handle().clone();
        let fut = async move {
            let mut plan = plan;
            plan.delay_seed = spec.delay_seed;
            plan.shard_reply_exists = spec.shard_reply_exists;
            plan.global_keyed_seed = spec.global_keyed_seed;
            if plan.max_delay_us == 0 {
                plan.max_delay_us = 1500;
            }
            let client = match MonitoredClient::new(d_store, if spec.fresh_cache_global_dedup { Some(cache_dir) } else { None }, log.clone(), plan) {
                Ok(c) => c,
                Err(e) => return (Vec::new(), None, Some(format!("client: {e}"))),
            };
            let tp = ThreadPool::from_current_runtime();
            let dyn_client: Arc<dyn Client + Send + Sync> = client;
            let session = match FileUploadSession::new_with_client(config, tp, dyn_client, None).await {
                Ok(s) => s,
                Err(e) => return (Vec::new(), None, Some(format!("session: {e}"))),
            };
            let mut outcomes: Vec<FileOutcome> = Vec::new();
            let clean_one = |session: Arc<FileUploadSession>, f: FileSpec| async move {
                let mut cleaner = session.start_clean(format!("file{}", f.gidx));
                let mut prev = 0usize;
                let n = f.bytes.len();
                for c in f.cuts.iter().cloned().chain(std::iter::once(n)) {
                    let c = c.min(n);
                    if c < prev {
                        continue;
                    }
                    cleaner.add_data(&f.bytes[prev..c]).await.map_err(|e| format!("add_data: {e} / {e:?}"))?;
                    prev = c;
                }
                cleaner.finish().await.map_err(|e| format!("finish: {e}"))
            };
            if spec.concurrent {
                let mut hs = Vec::new();
                for f in spec.files.iter().cloned() {
                    let s = session.clone();
                    hs.push(handle.spawn(clean_one(s, f)));
                }
                for h in hs {
                    let r = match h.await {
                        Ok(r) => r,
                        Err(e) => Err(format!("task panicked/cancelled: {e}")),
                    };
                    outcomes.push(FileOutcome { result: r });
                }
            } else {
                for f in spec.files.iter().cloned() {
                    let r = match handle.spawn(clean_one(session.clone(), f)).await {
                        Ok(r) => r,
                        Err(e) => Err(format!("task panicked/cancelled: {e}")),
                    };
                    let failed = r.is_err();
                    outcomes.push(FileOutcome { result: r });
                    if failed && policy == ErrPolicy::AbandonSession {
                        break;
                    }
                }
            }
            let any_err = outcomes.iter().any(|o| o.result.is_err());
            let fin = if any_err && policy == ErrPolicy::AbandonSession {
                drop(session);
                None
            } else {
                Some(session.finalize_with_file_info().await.map_err(|e| format!("finalize: {e}")))
            };
            (outcomes, fin, None)
        };
        let h = rt.handle().clone();
        rt.block_on(async move {
            match h.spawn(fut).await {
                Ok(v) => v,
                Err(e) => (Vec::new(), Some(Err(format!("session task panicked: {e}"))), None),
            }
        })
    };
    rt.shutdown_timeout(std::time::Duration::from_secs(5));
    SessionOutcome {
        files: out.0,
        finalize: out.1,
        log: log.snapshot(),
        setup_error: out.2,
    }
}

// ------------------------------------------------------------------------------------------------
// store view + monitors

#[derive(Default)]
pub struct StoreView {
    /// validated xorbs on disk: hash -> chunk (hash, len)
    pub xorbs: HashMap<H, Vec<(H, u32)>>,
    /// chunk hash -> stored by an earlier *finalized* session that published into shard cache `cache_idx`
    pub stored_chunks: HashMap<H, BTreeSet<usize>>,
}

type Fail = (String, String);
fn fail<T>(sig: &str, msg: impl Into<String>) -> Result<T, Fail> {
    Err((sig.to_string(), msg.into()))
}

/// scan the store's xorb directory; validate new files; returns hashes of new xorbs
pub fn scan_store(d: &Dirs, view: &mut StoreView, deep_validate: bool) -> Result<Vec<H>, Fail> {
    let mut new = Vec::new();
    let dir = d.store().join("xorbs");
    let Ok(rd) = std::fs::read_dir(&dir) else {
        return Ok(new);
    };
    for e in rd.flatten() {
        let name = e.file_name().to_string_lossy().to_string();
        let Some(hexs) = name.strip_prefix("default.") else {
            if name.starts_with('.') {
                continue; // temp file of SafeFileCreator
            }
            return fail("store-foreign-file", format!("unexpected file {name} in xorb directory"));
        };
        let Some(h) = refs::from_hex_words(hexs) else {
            return fail("store-bad-name", format!("xorb file name {name} is not a hash"));
        };
        if view.xorbs.contains_key(&h) {
            continue;
        }
        let bytes = std::fs::read(e.path()).map_err(|er| ("io".to_string(), format!("{er}")))?;
        let r = match refs::ref_parse_xorb_v1(&bytes) {
            Ok(r) => r,
            Err(er) => return fail("xorb-does-not-decode", format!("stored xorb {name} rejected by the reference parser: {er}")),
        };
        if r.computed_hash != h {
            return fail("xorb-name-vs-hash", format!("stored xorb {name}: recomputed hash {} differs from its name", refs::hex_words(&r.computed_hash)));
        }
        if deep_validate {
            let m = mh(&h);
            match CasObject::validate_cas_object(&mut Cursor::new(&bytes), &m) {
                Ok(Some(_)) => {},
                _ => return fail("xorb-rejected-by-validator", format!("stored xorb {name} rejected by validate_cas_object")),
            }
        }
        view.xorbs.insert(h, r.chunks.iter().zip(r.chunk_hashes.iter()).map(|(c, hh)| (*hh, c.len() as u32)).collect());
        new.push(h);
    }
    Ok(new)
}

pub struct ParsedShard {
    pub files: Vec<MDBFileInfo>,
    pub cas: Vec<MDBCASInfo>,
    pub seq: u64,
    pub len: usize,
    pub uploaded_ok: bool,
}

pub fn parse_uploaded_shards(log: &[Event]) -> Result<Vec<ParsedShard>, Fail> {
    let mut out = Vec::new();
    for e in log.iter().filter(|e| e.op == Op::UploadShard && e.start) {
        let bytes = e.shard.as_ref().unwrap();
        let mut rd = Cursor::new(bytes.as_slice());
        let info = MDBShardInfo::load_from_reader(&mut rd).map_err(|er| ("shard-unparsable".to_string(), format!("uploaded shard does not parse: {er}")))?;
        let files = info.read_all_file_info_sections(&mut rd).map_err(|er| ("shard-unparsable".to_string(), format!("{er}")))?;
        let cas = info.read_all_cas_blocks_full(&mut rd).map_err(|er| ("shard-unparsable".to_string(), format!("{er}")))?;
        let ok = log.iter().any(|x| x.op == Op::UploadShard && !x.start && x.ordinal == e.ordinal && x.ok);
        out.push(ParsedShard {
            files,
            cas,
            seq: e.seq,
            len: bytes.len(),
            uploaded_ok: ok,
        });
    }
    Ok(out)
}

/// reference description of a file's bytes
pub struct RefFile {
    pub chunks: Vec<(H, u64)>,
    pub boundaries: Vec<usize>,
}

pub fn ref_file(bytes: &[u8], target: usize) -> RefFile {
    let b = refs::ref_chunk_boundaries(bytes, target, &gearhash_table());
    let mut chunks = Vec::with_capacity(b.len());
    let mut prev = 0;
    for e in &b {
        chunks.push((refs::leaf_hash(&bytes[prev..*e]), (*e - prev) as u64));
        prev = *e;
    }
    RefFile { chunks, boundaries: b }
}

pub fn gearhash_table() -> [u64; 256] {
    xvcommon::gear_table()
}

/// C02 for one file: its record (found in the uploaded shards by hash) against store + reference
pub fn check_file_record(rec: &MDBFileInfo, bytes: &[u8], rf: &RefFile, salt: &[u8; 32], view: &StoreView) -> Result<(), Fail> {
    let want_hash = refs::file_hash(&rf.chunks, salt);
    if hb(&rec.metadata.file_hash) != want_hash {
        return fail("record-file-hash", "file record hash differs from the hash recomputed from the original bytes");
    }
    let mut all: Vec<(H, u64)> = Vec::new();
    let mut total = 0u64;
    if !rec.verification.is_empty() && rec.verification.len() != rec.segments.len() {
        return fail("record-verification-count", "number of verification entries differs from number of segments");
    }
    // pass 1: resolve every segment; the referenced chunks must be the file's own chunks, in order
    let mut resolved: Vec<&[(H, u32)]> = Vec::new();
    for (i, s) in rec.segments.iter().enumerate() {
        if s.cas_hash == MerkleHash::default() {
            return fail("record-unresolved-xorb", "file record has a segment with an unresolved (zero) xorb reference");
        }
        let Some(x) = view.xorbs.get(&hb(&s.cas_hash)) else {
            return fail("record-missing-xorb", format!("segment {i} references xorb {} which is not in the store", s.cas_hash.hex()));
        };
        let (a, b) = (s.chunk_index_start as usize, s.chunk_index_end as usize);
        if a >= b || b > x.len() {
            return fail("record-range", format!("segment {i} chunk range [{a},{b}) outside xorb of {} chunks", x.len()));
        }
        all.extend(x[a..b].iter().map(|c| (c.0, c.1 as u64)));
        resolved.push(&x[a..b]);
    }
    if all != rf.chunks {
        let first = all.iter().zip(rf.chunks.iter()).position(|(p, q)| p != q).unwrap_or(all.len().min(rf.chunks.len()));
        return fail("record-chunks", format!("referenced chunks differ from the reference chunking of the original bytes (first difference at chunk {first}; {} referenced, {} in the file)", all.len(), rf.chunks.len()));
    }
    // pass 2: byte counts and verification hashes per segment
    for (i, (s, x)) in rec.segments.iter().zip(resolved.iter()).enumerate() {
        let sum: u64 = x.iter().map(|c| c.1 as u64).sum();
        if sum != s.unpacked_segment_bytes as u64 {
            return fail("record-segment-bytes", format!("segment {i}: recorded {} bytes, chunks sum to {sum}", s.unpacked_segment_bytes));
        }
        total += sum;
        let hs: Vec<H> = x.iter().map(|c| c.0).collect();
        if rec.contains_verification() {
            if hb(&rec.verification[i].range_hash) != refs::range_hash(&hs) {
                return fail("record-verification-hash", format!("segment {i}: verification hash differs from the recomputed range hash"));
            }
        } else {
            return fail("record-no-verification", "file record carries no verification entries");
        }
    }
    if total != bytes.len() as u64 {
        return fail("record-size", format!("segments cover {total} bytes, file has {}", bytes.len()));
    }
    match &rec.metadata_ext {
        None => return fail("record-no-sha", "file record carries no SHA-256"),
        Some(m) => {
            let want = refs::sha256_as_merklehash_bytes(&refs::sha256(bytes));
            if hb(&m.sha256) != want {
                let sig = if bytes.is_empty() { "record-sha256-empty-file" } else { "record-sha256" };
                return fail(sig, format!("recorded SHA-256 {} differs from SHA-256 of the bytes ({} bytes)", m.sha256.hex(), bytes.len()));
            }
        },
    }
    Ok(())
}

/// C15 on one put
pub fn check_put_limits(e: &Event, l: &Limits) -> Result<(), Fail> {
    let ch = e.chunks.as_ref().unwrap();
    if e.nbytes == 0 || ch.is_empty() {
        return fail("put-empty", "empty xorb handed to the store");
    }
    if ch.len() > l.max_xorb_chunks {
        return fail("put-too-many-chunks", format!("xorb with {} chunks > MAX_XORB_CHUNKS {}", ch.len(), l.max_xorb_chunks));
    }
    if e.nbytes > l.max_xorb_bytes {
        return fail("put-too-many-bytes", format!("xorb with {} bytes > MAX_XORB_BYTES {}", e.nbytes, l.max_xorb_bytes));
    }
    let mut prev = 0u32;
    for (i, (_, b)) in ch.iter().enumerate() {
        if *b <= prev {
            return fail("put-boundaries", format!("chunk boundaries not strictly increasing at {i}"));
        }
        let len = (*b - prev) as usize;
        if len > l.max_chunk || len >= (1 << 24) {
            return fail("put-chunk-too-long", format!("chunk of {len} bytes > maximum chunk size {}", l.max_chunk));
        }
        prev = *b;
    }
    if prev as usize != e.nbytes {
        return fail("put-last-boundary", "last boundary != data length");
    }
    Ok(())
}

pub struct HistoryState {
    pub view: StoreView,
    pub files_bytes: Vec<Arc<Vec<u8>>>,
}

pub struct SessionVerdicts {
    pub kinds: BTreeSet<&'static str>,
    pub n_puts: usize,
    pub n_shards: usize,
}

fn m_json(m: &DeduplicationMetrics) -> Value {
    json!({"total_bytes": m.total_bytes, "deduped_bytes": m.deduped_bytes, "new_bytes": m.new_bytes, "global": m.deduped_bytes_by_global_dedup,
           "defrag": m.defrag_prevented_dedup_bytes, "total_chunks": m.total_chunks, "deduped_chunks": m.deduped_chunks, "new_chunks": m.new_chunks,
           "xorb_up": m.xorb_bytes_uploaded, "shard_up": m.shard_bytes_uploaded, "total_up": m.total_bytes_uploaded})
}

/// Run all per-session monitors on a session whose every call returned Ok.
#[allow(clippy::too_many_arguments)]
pub fn judge_success_session(
    rep: &mut Report,
    d: &Dirs,
    l: &Limits,
    spec: &SessionSpec,
    out: &SessionOutcome,
    st: &mut HistoryState,
    wit: &dyn Fn(&str) -> Value,
    download: bool,
    rng: &mut Rng,
) -> SessionVerdicts {
    let mut kinds: BTreeSet<&'static str> = BTreeSet::new();
    let pre_session_stored: HashSet<H> = st.view.stored_chunks.iter().filter(|(_, caches)| caches.contains(&spec.cache_idx)).map(|(h, _)| *h).collect();
    let (sm, _infos) = out.finalize.as_ref().unwrap().as_ref().unwrap();
    let log = &out.log;
    let puts: Vec<&Event> = log.iter().filter(|e| e.op == Op::Put && e.start).collect();
    let put_ends: Vec<&Event> = log.iter().filter(|e| e.op == Op::Put && !e.start).collect();

    // ---- C15: limits on everything handed to the store
    for e in &puts {
        match check_put_limits(e, l) {
            Ok(()) => {},
            Err((sig, msg)) => rep.violation("C15", &sig, &msg, wit(&msg)),
        }
        let n = e.chunks.as_ref().unwrap().len();
        if n == l.max_xorb_chunks {
            rep.count("C15", "puts_at_chunk_limit", 1);
        }
        if e.nbytes + l.max_chunk > l.max_xorb_bytes {
            rep.count("C15", "puts_within_one_chunk_of_byte_limit", 1);
        }
    }
    rep.count("C15", "puts_checked", puts.len() as u64);

    // ---- store scan (C02 a)
    let known_before: HashSet<H> = st.view.xorbs.keys().cloned().collect();
    let new_xorbs = match scan_store(d, &mut st.view, true) {
        Ok(n) => n,
        Err((sig, msg)) => {
            rep.violation("C02", &sig, &msg, wit(&msg));
            Vec::new()
        },
    };
    rep.count("C02", "stored_xorbs_validated", new_xorbs.len() as u64);
    if new_xorbs.len() >= 2 {
        kinds.insert("multi-xorb");
    }

    // ---- shards handed to the store
    let shards = match parse_uploaded_shards(log) {
        Ok(s) => s,
        Err((sig, msg)) => {
            rep.violation("C02", &sig, &msg, wit(&msg));
            Vec::new()
        },
    };
    for s in &shards {
        for f in &s.files {
            if f.segments.iter().any(|x| x.cas_hash == MerkleHash::default()) {
                rep.violation("C15", "shard-unresolved-xorb", "a file record with an unresolved xorb reference was uploaded", wit("unresolved"));
            }
            // ---- C16 ordering: every referenced xorb stored before this shard was handed over
            for seg in &f.segments {
                let x = hb(&seg.cas_hash);
                let stored_before = known_before.contains(&x) || put_ends.iter().any(|p| p.ok && hb(&p.key) == x && p.seq < s.seq);
                if !stored_before {
                    rep.violation("C16", "shard-before-xorb", "a shard was handed to the store before a xorb it references was stored", wit(&format!("xorb {}", seg.cas_hash.hex())));
                }
            }
        }
        rep.count("C16", "shard_uploads_order_checked", 1);
    }

    // ---- C11 (a): every xorb put by this session is described in a shard this session uploaded
    for e in &puts {
        let found = shards.iter().any(|s| s.cas.iter().any(|c| c.metadata.cas_hash == e.key));
        if !found {
            let n = e.chunks.as_ref().unwrap().len();
            rep.violation(
                "C11",
                "xorb-not-in-session-shards",
                "a xorb stored by the session is not recorded in any shard the session uploaded",
                wit(&format!("xorb {} ({} chunks, put ordinal {} of {})", e.key.hex(), n, e.ordinal, puts.len())),
            );
        } else {
            rep.count("C11", "new_xorbs_found_in_shards", 1);
        }
    }
    // ---- C11 (b): nothing stored by an earlier finalized session (visible through this shard cache) is uploaded again
    if !spec.fresh_cache_global_dedup {
        let mut reup_chunks = 0u64;
        let mut reup_bytes = 0u64;
        for e in &puts {
            let mut prev = 0u32;
            for (h, b) in e.chunks.as_ref().unwrap().iter() {
                if st.view.stored_chunks.get(&hb(h)).map(|s| s.contains(&spec.cache_idx)).unwrap_or(false) {
                    reup_chunks += 1;
                    reup_bytes += (*b - prev) as u64;
                }
                prev = *b;
            }
        }
        let defrag: usize = out.files.iter().filter_map(|f| f.result.as_ref().ok()).map(|r| r.1.defrag_prevented_dedup_chunks).sum();
        // the in-memory chunk index is capped (CHUNK_INDEX_TABLE_MAX_SIZE): beyond the cap chunks are legitimately not
        // found.  The clause is judged only while the history has stored less than half the configured cap.
        let index_cap: usize = std::env::var("HF_XET_CHUNK_INDEX_TABLE_MAX_SIZE").ok().and_then(|s| s.parse().ok()).unwrap_or(64 * 1024 * 1024);
        let within_cap = st.view.stored_chunks.len() * 2 <= index_cap;
        if reup_chunks > 0 && !within_cap {
            rep.count("C11", "reuploads_not_judged_history_near_index_cap", 1);
        }
        if reup_chunks > 0 && within_cap {
            if l.frag_prevention_off || defrag == 0 {
                rep.violation(
                    "C11",
                    "reupload-of-stored-chunks",
                    "chunks stored by an earlier finalized session were uploaded again",
                    wit(&format!("{reup_chunks} chunks / {reup_bytes} bytes re-uploaded; defrag_prevented_chunks={defrag}")),
                );
            } else {
                rep.count("C11", "reuploads_explained_by_fragmentation_prevention", 1);
            }
        }
        rep.count("C11", "sessions_checked_for_reupload", 1);
    }

    // ---- per file: C03 pointer, C02 record, C14 metrics, C01 download
    let mut sum = DeduplicationMetrics::default();
    for (fs, fo) in spec.files.iter().zip(out.files.iter()) {
        let (ptr, m) = fo.result.as_ref().unwrap();
        let bytes = &fs.bytes;
        let rf = ref_file(bytes, l.target);
        sum.merge_in(m);
        let fw = |what: &str| {
            let mut w = wit(what);
            w["file"] = json!({"gidx": fs.gidx, "len": bytes.len(), "cut_kind": fs.cut_kind, "recipe": fs.recipe.iter().map(|s| s.to_json()).collect::<Vec<_>>()});
            w["file_metrics"] = m_json(m);
            w
        };
        // C03
        let want = refs::file_hash(&rf.chunks, &spec.salt);
        let ptr2 = PointerFile::init_from_string(&ptr.to_string(), "");
        if !ptr2.is_valid() || ptr2.hash_string() != ptr.hash_string() || ptr2.filesize() != ptr.filesize() {
            rep.violation("C03", "pointer-text-roundtrip", "pointer file text form does not round trip", fw("roundtrip"));
        }
        if *ptr.hash_string() != refs::hex_words(&want) {
            rep.violation("C03", "pointer-hash-vs-reference", "pointer hash differs from reference (ref chunker + merkle + salt)", fw(&format!("got {} want {}", ptr.hash_string(), refs::hex_words(&want))));
        }
        if ptr.filesize() != bytes.len() as u64 {
            rep.violation("C03", "pointer-size", "pointer size differs from the number of bytes fed", fw(&format!("pointer {} fed {}", ptr.filesize(), bytes.len())));
            rep.violation("C14", "pointer-size", "pointer size differs from the number of bytes fed", fw(&format!("pointer {} fed {}", ptr.filesize(), bytes.len())));
        }
        if !bytes.is_empty() {
            let mut s2 = spec.salt;
            s2[7] ^= 0x10;
            if refs::file_hash(&rf.chunks, &s2) == want {
                rep.inconclusive("C03", "reference salt check degenerate");
            }
        }
        rep.case("C03", if rf.chunks.len() >= 2 { Some(format!("{}|c{}|w{}|cc{}|n{}", fs.cut_kind, bucket(rf.chunks.len()), spec.workers, spec.concurrent as u8, (m.deduped_chunks > 0) as u8)) } else { None });
        if m.deduped_chunks > 0 {
            rep.count("C03", "files_with_dedup", 1);
        }
        // C14 per file
        if m.total_bytes != bytes.len() {
            rep.violation("C14", "file-total-bytes", "file total_bytes metric differs from bytes fed", fw(&format!("total_bytes {} fed {}", m.total_bytes, bytes.len())));
        }
        if m.new_bytes + m.deduped_bytes != m.total_bytes || m.new_chunks + m.deduped_chunks != m.total_chunks {
            rep.violation("C14", "file-new-plus-deduped", "new + deduped != total", fw("conservation"));
        }
        if m.total_chunks != rf.chunks.len() {
            rep.violation("C14", "file-total-chunks", "total_chunks differs from the number of chunks of the file", fw(&format!("total_chunks {} ref {}", m.total_chunks, rf.chunks.len())));
        }
        if m.defrag_prevented_dedup_bytes > m.new_bytes || m.defrag_prevented_dedup_chunks > m.new_chunks {
            rep.violation("C14", "file-defrag-gt-new", "bytes withheld from dedup exceed new bytes", fw("defrag"));
        }
        if m.deduped_bytes_by_global_dedup > m.deduped_bytes || m.deduped_chunks_by_global_dedup > m.deduped_chunks {
            // not part of the property's statement (the global-dedup counter is taken when a match is
            // found, before fragmentation prevention may refuse the run): observed, not claimed
            rep.count("C14", "observed_global_dedup_counter_exceeds_deduped_not_claimed", 1);
        }
        // a file all of whose chunks were stored by earlier finalized sessions visible through this shard cache:
        // every chunk has a dedup answer, so (nearly) whatever is stored as new was withheld by fragmentation prevention
        if !spec.fresh_cache_global_dedup
            && !rf.chunks.is_empty()
            && rf.chunks.iter().all(|c| pre_session_stored.contains(&c.0))
        {
            rep.count("C14", "fully_dedupable_files_checked", 1);
            if m.new_chunks > 0 {
                rep.count("C14", "fully_dedupable_files_with_withheld_chunks", 1);
            }
            // Here every new chunk is expected to be a withheld one, so the sound inequality withheld <= new (judged above
            // for every file) is tight and any over-count of withheld bytes trips it.  new > withheld is possible on correct
            // code (a dedup answer of the first pass is skipped when a run found in the file's own pending data jumps over
            // the index it was stored at; the chunk behind it is then stored as new without being "withheld") and is not
            // claimed by the property: observed only.
            if m.new_chunks != m.defrag_prevented_dedup_chunks || m.new_bytes != m.defrag_prevented_dedup_bytes {
                rep.count("C14", "observed_fully_dedupable_new_exceeds_withheld_not_claimed", 1);
            }
        }
        if m.defrag_prevented_dedup_chunks > 0 {
            kinds.insert("defrag-withheld");
            rep.count("C14", "files_with_fragmentation_prevention", 1);
        }
        if m.deduped_chunks_by_global_dedup > 0 {
            kinds.insert("global-dedup");
            if spec.global_keyed_seed.is_some() {
                kinds.insert("global-dedup-keyed");
            }
            rep.count("C01", "files_with_global_dedup", 1);
        }
        if m.deduped_chunks > 0 {
            kinds.insert("dedup");
        }
        if m.new_chunks > 0 {
            kinds.insert("new");
        }
        rep.case("C14", if m.total_chunks >= 2 { Some(format!("f|d{}|n{}|fr{}|g{}|c{}", (m.deduped_chunks > 0) as u8, (m.new_chunks > 0) as u8, (m.defrag_prevented_dedup_chunks > 0) as u8, (m.deduped_chunks_by_global_dedup > 0) as u8, bucket(m.total_chunks))) } else { None });

        // C02 record
        let rec = shards.iter().flat_map(|s| s.files.iter()).find(|f| f.metadata.file_hash.hex() == *ptr.hash_string());
        match rec {
            None => rep.violation("C02", "record-missing", "no uploaded shard holds a record for a file of the session", fw("missing record")),
            Some(rec) => {
                match check_file_record(rec, bytes, &rf, &spec.salt, &st.view) {
                    Ok(()) => {},
                    Err((sig, msg)) => {
                        rep.violation("C02", &sig, &msg, fw(&msg));
                        // a segment that resolves to other chunks / other byte counts than the file's own
                        // means the deduper acted on an untruthful dedup answer (shard lookup or the
                        // lookup against the xorb being built)
                        if sig == "record-chunks" || sig == "record-segment-bytes" || sig == "record-range" {
                            rep.violation("C05", &format!("session-dedup-answer-{sig}"), &format!("a dedup answer used for a file record was not truthful: {msg}"), fw(&msg));
                        }
                    },
                }
                if m.deduped_chunks > 0 {
                    rep.count("C05", "session_files_with_dedup_answers_resolved", 1);
                    rep.count("C05", "session_deduped_chunks_resolved", m.deduped_chunks as u64);
                }
                rep.case("C05", if m.deduped_chunks > 0 { Some(format!("sess|s{}|c{}|d{}", bucket(rec.segments.len()), bucket(rf.chunks.len()), bucket(m.deduped_chunks))) } else { None });
                if rec.segments.len() >= 2 {
                    kinds.insert("multi-segment");
                }
                let distinct_x: HashSet<H> = rec.segments.iter().map(|s| hb(&s.cas_hash)).collect();
                if distinct_x.iter().any(|x| known_before.contains(x)) {
                    kinds.insert("cross-session-ref");
                }
                rep.case("C02", if rec.segments.len() >= 2 || distinct_x.len() >= 2 { Some(format!("s{}|x{}|c{}|old{}", bucket(rec.segments.len()), bucket(distinct_x.len()), bucket(rf.chunks.len()), distinct_x.iter().any(|x| known_before.contains(x)) as u8)) } else { None });
            },
        }

        // C01 download (whole + ranges)
        if download {
            let segb: Vec<usize> = rec
                .map(|r| {
                    let mut acc = 0usize;
                    r.segments
                        .iter()
                        .map(|s| {
                            acc += s.unpacked_segment_bytes as usize;
                            acc
                        })
                        .collect()
                })
                .unwrap_or_default();
            match download_and_compare(d, spec, ptr, bytes, &segb, rng) {
                Ok(nr) => {
                    rep.count("C01", "ranges_downloaded", nr);
                },
                Err((sig, msg)) => {
                    rep.violation("C01", &sig, &msg, fw(&msg));
                    // C16, last clause: a session whose calls all returned Ok leaves every file reconstructible
                    rep.violation("C16", &format!("success-but-{sig}"), &msg, fw(&msg));
                },
            }
        }
    }
    // ---- C14 session level
    let put_ret: usize = put_ends.iter().filter(|e| e.ok).map(|e| e.ret).sum();
    let shard_bytes: usize = shards.iter().map(|s| s.len).sum();
    let sw = |what: &str| {
        let mut w = wit(what);
        w["session_metrics"] = m_json(sm);
        w["sum_of_file_metrics"] = m_json(&sum);
        w["sum_put_returns"] = json!(put_ret);
        w["sum_shard_bytes"] = json!(shard_bytes);
        w
    };
    if sm.total_bytes != sum.total_bytes
        || sm.deduped_bytes != sum.deduped_bytes
        || sm.new_bytes != sum.new_bytes
        || sm.total_chunks != sum.total_chunks
        || sm.deduped_chunks != sum.deduped_chunks
        || sm.new_chunks != sum.new_chunks
        || sm.defrag_prevented_dedup_bytes != sum.defrag_prevented_dedup_bytes
        || sm.deduped_bytes_by_global_dedup != sum.deduped_bytes_by_global_dedup
    {
        rep.violation("C14", "session-not-sum-of-files", "session metrics are not the sums over its files", sw("sum"));
    }
    if sm.xorb_bytes_uploaded != put_ret {
        rep.violation("C14", "session-xorb-bytes-uploaded", "xorb_bytes_uploaded differs from what the store calls returned", sw(&format!("reported {} actual {}", sm.xorb_bytes_uploaded, put_ret)));
    }
    if sm.shard_bytes_uploaded != shard_bytes {
        rep.violation("C14", "session-shard-bytes-uploaded", "shard_bytes_uploaded differs from the shard bytes handed to the store", sw(&format!("reported {} actual {}", sm.shard_bytes_uploaded, shard_bytes)));
    }
    if sm.total_bytes_uploaded != sm.xorb_bytes_uploaded + sm.shard_bytes_uploaded {
        rep.violation("C14", "session-total-bytes-uploaded", "total_bytes_uploaded != xorb + shard bytes", sw("total"));
    }
    rep.count("C14", "sessions_checked", 1);
    if put_ret > 0 {
        rep.count("C14", "sessions_with_xorb_uploads", 1);
    }

    // remember what this finalized session published into its shard cache
    for s in &shards {
        for c in &s.cas {
            for ch in &c.chunks {
                st.view.stored_chunks.entry(hb(&ch.chunk_hash)).or_default().insert(spec.cache_idx);
            }
        }
    }
    // xorbs shared by several files of the session
    {
        let mut users: HashMap<H, usize> = HashMap::new();
        for s in &shards {
            for f in &s.files {
                let xs: HashSet<H> = f.segments.iter().map(|x| hb(&x.cas_hash)).collect();
                for x in xs {
                    *users.entry(x).or_insert(0) += 1;
                }
            }
        }
        if users.values().any(|n| *n >= 2) {
            kinds.insert("shared-xorb");
        }
    }
    SessionVerdicts {
        kinds,
        n_puts: puts.len(),
        n_shards: shards.len(),
    }
}

fn bucket(n: usize) -> u32 {
    if n == 0 {
        0
    } else {
        usize::BITS - n.leading_zeros()
    }
}

/// download through a *new* FileDownloader into fresh files and compare whole file + ranges
pub fn download_and_compare(d: &Dirs, spec: &SessionSpec, ptr: &PointerFile, bytes: &[u8], seg_boundaries: &[usize], rng: &mut Rng) -> Result<u64, Fail> {
    let rt = tokio::runtime::Builder::new_multi_thread().worker_threads(2).enable_all().build().unwrap();
    let config = make_config(d, spec.cache_idx, spec.salt, false);
    let ptr2 = PointerFile::init_from_string(&ptr.to_string(), "");
    let n = bytes.len() as u64;
    let mut ranges: Vec<Option<(u64, u64)>> = vec![None];
    if n > 0 {
        ranges.push(Some((0, 1)));
        ranges.push(Some((n - 1, n)));
        ranges.push(Some((0, n)));
        for b in seg_boundaries.iter().take(6) {
            let b = *b as u64;
            if b > 0 && b < n {
                ranges.push(Some((b - 1, b + 1)));
                ranges.push(Some((b, (b + 5).min(n))));
            }
        }
        for _ in 0..3 {
            let a = rng.below(n);
            let b = rng.range(a + 1, n);
            ranges.push(Some((a, b)));
        }
        let a = rng.below(n);
        ranges.push(Some((a, a))); // empty range
    }
    let dl_dir = d.root.join("downloads");
    std::fs::create_dir_all(&dl_dir).ok();
    let res: Result<u64, Fail> = {
        let h = rt.handle().clone();
        rt.block_on(async move {
            let tp = ThreadPool::from_current_runtime();
            let _ = h;
            let dl = FileDownloader::new(config, tp).await.map_err(|e| ("download-setup-error".to_string(), format!("FileDownloader::new: {e}")))?;
            let mut nr = 0u64;
            for (i, r) in ranges.iter().enumerate() {
                let out = dl_dir.join(format!("out-{}-{i}-{}", ptr2.hash_string(), nr));
                let _ = std::fs::remove_file(&out);
                let provider = OutputProvider::File(FileProvider::new(out.clone()));
                let fr = r.map(|(a, b)| FileRange { start: a, end: b });
                let got_n = match dl.smudge_file_from_pointer(&ptr2, &provider, fr, None).await {
                    Ok(v) => v,
                    Err(e) => return fail("download-error", format!("download of range {r:?} failed: {e}")),
                };
                let got = std::fs::read(&out).unwrap_or_default();
                let _ = std::fs::remove_file(&out);
                let want: &[u8] = match r {
                    None => bytes,
                    Some((a, b)) => &bytes[*a as usize..*b as usize],
                };
                if got != want {
                    let first = got.iter().zip(want.iter()).position(|(x, y)| x != y).unwrap_or(got.len().min(want.len()));
                    return fail("download-bytes-differ", format!("range {r:?}: downloaded {} bytes, expected {}; first difference at {first}", got.len(), want.len()));
                }
                if got_n != want.len() as u64 {
                    return fail("download-length-report", format!("range {r:?}: reported {got_n} bytes, wrote {}", want.len()));
                }
                nr += 1;
            }
            Ok(nr)
        })
    };
    rt.shutdown_timeout(std::time::Duration::from_secs(5));
    res
}

// ------------------------------------------------------------------------------------------------
// history generation

pub struct GenOpts {
    pub max_sessions: usize,
    pub max_files: usize,
    pub max_file_bytes: usize,
    pub min_file_bytes: usize,
    pub allow_global: bool,
    pub interleave: bool,
    pub repeat_bias: bool,
    pub defrag_focus: bool,
    /// many files per session, always cleaned concurrently on 4..16 workers: the shared session state
    /// (shard manager flushes, aggregator merges, upload tasks) is hit from many tasks at once
    pub storm: bool,
    /// most later sessions reach the shard cache through their own manager instance (as a new process would)
    pub alias_bias: bool,
}

pub fn gen_history(rng: &mut Rng, l: &Limits, o: &GenOpts) -> Vec<SessionSpec> {
    let n_sessions = if o.defrag_focus { rng.urange(2, o.max_sessions.max(2)) } else { rng.urange(1, o.max_sessions) };
    let ctx = GenCtx {
        target: l.target,
        max_xorb_bytes: l.max_xorb_bytes,
        max_xorb_chunks: l.max_xorb_chunks,
        max_file: o.max_file_bytes,
        min_file: o.min_file_bytes,
    };
    let mut salt = [0u8; 32];
    match rng.below(3) {
        0 => {},
        _ => rng.fill(&mut salt),
    }
    let mut prior: Vec<Vec<u8>> = Vec::new();
    let mut sessions = Vec::new();
    let mut n_caches = 1usize;
    for si in 0..n_sessions {
        let nf = if o.storm {
            rng.urange((o.max_files / 2).max(2), o.max_files)
        } else {
            match rng.below(5) {
                0 => 1,
                1 => rng.urange(1, 2),
                _ => rng.urange(1, o.max_files),
            }
        };
        let want_dedup = if si == 0 { rng.below(3) } else if o.repeat_bias { rng.range(4, 9) } else { rng.below(8) };
        let mut files = Vec::new();
        let prior_lens_at_start: Vec<usize> = prior.iter().map(|p| p.len()).collect();
        for _ in 0..nf {
            // within a session, copies only refer to files of earlier sessions or earlier files of this session
            let lens: Vec<usize> = prior.iter().map(|p| p.len()).collect();
            let use_all = rng.chance(1, 2);
            let il = if !o.interleave { 0 } else if o.defrag_focus && si > 0 { 5 } else { 1 };
            // fully dedupable file: whole chunks of a file of an earlier session, short runs, with repeats
            let aligned_src: Vec<usize> = (0..prior_lens_at_start.len()).filter(|i| prior_lens_at_start[*i] > 40 * l.target).collect();
            let recipe = if o.defrag_focus && si > 0 && !aligned_src.is_empty() && rng.chance(1, 2) {
                let f = *rng.pick(&aligned_src);
                let b = refs::ref_chunk_boundaries(&prior[f], l.target, &gearhash_table());
                let nb = b.len() - 1; // never use the final chunk (its end is the end of the stream, not a content-defined cut)
                let mut segs = Vec::new();
                let mut starts: Vec<usize> = Vec::new();
                let pieces = rng.urange(40, 220);
                for _ in 0..pieces {
                    let k = rng.urange(1, 3);
                    let s0 = if !starts.is_empty() && rng.chance(2, 5) {
                        // repeat an earlier piece, possibly shifted by one chunk (second chunk of a run begins a local run)
                        let p0 = *rng.pick(&starts);
                        if rng.chance(1, 2) { p0 } else { p0.saturating_sub(1) }
                    } else {
                        rng.usize_below(nb.saturating_sub(k).max(1))
                    };
                    let s0 = s0.min(nb.saturating_sub(k));
                    starts.push(s0);
                    let a = if s0 == 0 { 0 } else { b[s0 - 1] };
                    let e = b[s0 + k - 1];
                    segs.push(Seg::Copy { file: f, off: a, len: e - a });
                }
                segs
            } else if !o.defrag_focus && si > 0 && !prior_lens_at_start.is_empty() && rng.chance(1, 8) {
                // a new file made only of whole chunks of earlier sessions' files (1..3 aligned runs): every chunk deduplicates,
                // so the file contributes a record but no new data (a session of such files has an empty final xorb)
                let mut segs = Vec::new();
                for _ in 0..rng.urange(1, 3) {
                    let f = rng.usize_below(prior_lens_at_start.len());
                    let b = refs::ref_chunk_boundaries(&prior[f], l.target, &gearhash_table());
                    if b.len() < 3 {
                        continue;
                    }
                    let nb = b.len() - 1;
                    let s0 = rng.usize_below(nb);
                    let k = rng.urange(1, nb - s0);
                    let a = if s0 == 0 { 0 } else { b[s0 - 1] };
                    segs.push(Seg::Copy { file: f, off: a, len: b[s0 + k - 1] - a });
                }
                if segs.is_empty() {
                    segs.push(Seg::Fresh { seed: rng.next_u64(), len: rng.urange(1, 4 * l.target) });
                }
                segs
            } else if o.defrag_focus && si == 0 && files.is_empty() {
                // a large fresh file for later sessions to interleave against
                vec![Seg::Fresh { seed: rng.next_u64(), len: l.target * rng.urange(300, 600) }]
            } else {
                gen_recipe(rng, &ctx, if use_all { &lens } else { &prior_lens_at_start }, want_dedup, il)
            };
            let bytes = materialize(&recipe, &prior);
            let rfb = refs::ref_chunk_boundaries(&bytes, l.target, &gearhash_table());
            let (cuts, cut_kind) = feed_cuts(rng, bytes.len(), &rfb, l.ingestion_block);
            let gidx = prior.len();
            prior.push(bytes.clone());
            files.push(FileSpec {
                recipe,
                bytes: Arc::new(bytes),
                cuts,
                cut_kind,
                gidx,
            });
        }
        let fresh = o.allow_global && si > 0 && rng.chance(1, 5);
        let cache_idx = if fresh {
            n_caches += 1;
            n_caches - 1
        } else {
            0
        };
        sessions.push(SessionSpec {
            files,
            workers: if o.storm { *rng.pick(&[4usize, 8, 16]) } else { *rng.pick(&[1usize, 2, 4, 16]) },
            concurrent: o.storm || rng.chance(2, 3),
            fresh_cache_global_dedup: fresh,
            delay_seed: if rng.chance(1, 2) { Some(rng.next_u64()) } else { None },
            salt,
            cache_idx,
            // "another process": a later session of the shared cache through its own manager instance
            cache_alias: if !fresh && si > 0 && rng.chance(if o.alias_bias { 3 } else { 1 }, 4) { Some(si) } else { None },
            shard_reply_exists: rng.chance(1, 5),
            global_keyed_seed: if fresh && rng.chance(2, 3) { Some(rng.next_u64()) } else { None },
            dry_run_first: !fresh && rng.chance(1, 8),
        });
    }
    sessions
}

pub fn session_json(s: &SessionSpec) -> Value {
    json!({
        "workers": s.workers, "concurrent": s.concurrent, "own_manager_instance_via_alias_path": s.cache_alias.is_some(), "global_dedup_fresh_cache": s.fresh_cache_global_dedup, "delays": s.delay_seed.is_some(), "shard_upload_reply_exists": s.shard_reply_exists, "global_dedup_shards_keyed": s.global_keyed_seed.is_some(), "dry_run_session_first": s.dry_run_first,
        "salt_zero": s.salt == [0u8; 32],
        "files": s.files.iter().map(|f| json!({"len": f.bytes.len(), "cut_kind": f.cut_kind, "recipe": f.recipe.iter().map(|x| x.to_json()).collect::<Vec<_>>()})).collect::<Vec<_>>()
    })
}

pub const SESSION_PROPS: [&str; 8] = ["C01", "C02", "C03", "C05", "C11", "C14", "C15", "C16"];

/// engine "session": histories of fault-free sessions, all monitors
pub fn run(args: &Args, rep: &mut Report) {
    let l = match limits() {
        Ok(l) => l,
        Err(e) => {
            for p in SESSION_PROPS {
                rep.inconclusive(p, &e);
            }
            return;
        },
    };
    let o = GenOpts {
        max_sessions: args.usize("max-sessions", 4),
        max_files: args.usize("max-files", 6),
        max_file_bytes: args.usize("max-file-bytes", 40 * l.target * 4),
        min_file_bytes: args.usize("min-file-bytes", 0),
        allow_global: !args.has("no-global"),
        interleave: !args.has("no-interleave"),
        repeat_bias: args.has("repeat-bias"),
        defrag_focus: args.has("defrag-focus"),
        storm: args.has("storm"),
        alias_bias: args.has("alias-bias"),
    };
    let alias_sleep_ms = args.u64("alias-sleep-ms", 0);
    let cfg_id = format!("t{}|xb{}|xc{}|ib{}|fp{}", l.target, l.max_xorb_bytes, l.max_xorb_chunks, l.ingestion_block, l.frag_prevention_off as u8);
    let mut failed_sessions = 0u64;
    let mut total_sessions = 0u64;
    for (k, mut rng) in case_iter(args, 0x5E55, 20) {
        let mut hist = gen_history(&mut rng, &l, &o);
        // debugging aid: XV_ONLY_FILES=a,b keeps only these file positions in every session
        if let Ok(v) = std::env::var("XV_ONLY_FILES") {
            let keep: Vec<usize> = v.split(',').filter_map(|x| x.parse().ok()).collect();
            for s in hist.iter_mut() {
                let mut i = 0;
                s.files.retain(|_| {
                    i += 1;
                    keep.contains(&(i - 1))
                });
            }
            hist.retain(|s| !s.files.is_empty());
        }
        // debugging aids: XV_ONLY_GIDX=a,b keeps only the files with these global indices; XV_SEQ=1 forces sequential single-worker sessions
        if let Ok(v) = std::env::var("XV_ONLY_GIDX") {
            let keep: Vec<usize> = v.split(',').filter_map(|x| x.parse().ok()).collect();
            for s in hist.iter_mut() {
                s.files.retain(|f| keep.contains(&f.gidx));
            }
            hist.retain(|s| !s.files.is_empty());
        }
        if std::env::var("XV_SEQ").is_ok() {
            for s in hist.iter_mut() {
                s.concurrent = false;
                s.workers = 1;
                s.delay_seed = None;
            }
        }
        let tmp = tempfile::tempdir().expect("tempdir");
        let d = Dirs { root: tmp.path().to_path_buf() };
        let mut st = HistoryState {
            view: StoreView::default(),
            files_bytes: Vec::new(),
        };
        for (si, spec) in hist.iter().enumerate() {
            total_sessions += 1;
            if std::env::var("XV_DUMP_SPECS").is_ok() {
                eprintln!("SPEC case {k} session {si}: {}", session_json(spec));
            }
            if spec.dry_run_first {
                let cache_dir = d.cache_via(spec.cache_idx, spec.cache_alias);
                let list = |p: &std::path::Path| -> usize { std::fs::read_dir(p).map(|r| r.flatten().filter(|e| e.file_name().to_string_lossy().ends_with(".mdb")).count()).unwrap_or(0) };
                let before = list(&cache_dir);
                match run_dry_session(&d, spec) {
                    Ok(()) => {
                        rep.count("C16", "dry_run_sessions_before_a_real_one", 1);
                        if list(&cache_dir) != before {
                            rep.count("C16", "observed_dry_run_sessions_that_changed_the_shard_cache", 1);
                        }
                    },
                    Err(e) => {
                        rep.count("C16", "dry_run_sessions_failed", 1);
                        if rep.p("C16").inconclusive_notes.len() < 3 {
                            rep.p("C16").inconclusive_notes.push(format!("dry-run session failed: {e}"));
                        }
                    },
                }
            }
            let _ = xvcommon::take_panic_log();
            if alias_sleep_ms > 0 && spec.cache_alias.is_some() {
                // a "new process" that starts later: with a short configured validity of cached shards, time has to pass
                std::thread::sleep(std::time::Duration::from_millis(alias_sleep_ms));
                rep.count("C11", "second_manager_sessions_started_after_a_pause", 1);
            }
            let out = run_session(&d, spec, Plan::default(), ErrPolicy::AbandonSession);
            let session_panics = xvcommon::take_panic_log();
            let wit = |what: &str| {
                let mut w = witness_base(args, "session", k);
                w["config"] = json!(cfg_id);
                w["session_index"] = json!(si);
                w["session"] = session_json(spec);
                w["what"] = json!(what);
                w
            };
            if let Some(e) = &out.setup_error {
                for p in SESSION_PROPS {
                    rep.inconclusive(p, &format!("session setup failed: {e}"));
                }
                break;
            }
            let all_ok = out.files.len() == spec.files.len() && out.files.iter().all(|f| f.result.is_ok()) && matches!(out.finalize, Some(Ok(_)));
            if !all_ok {
                // a session that fails on valid input without any injected fault is not a case of these
                // properties; it is counted and gated (see DESIGN 3/C01)
                failed_sessions += 1;
                let msg = out
                    .files
                    .iter()
                    .filter_map(|f| f.result.as_ref().err().cloned())
                    .chain(out.finalize.iter().filter_map(|f| f.as_ref().err().cloned()))
                    .next()
                    .unwrap_or_default();
                rep.count("C01", "sessions_failed_without_fault", 1);
                // The deduplication crate's own debug assertions (on in the smallchunk profile) are monitors of C15 / C02:
                // xorb limits in RawXorbData::from_chunks, unresolved references in FileDeduper::cut_new_xorb, aggregator
                // bookkeeping.  One of them firing in a fault-free session on valid input is a violation (a release build
                // would have gone on and handed the object to the store).
                if let Some(pn) = session_panics.iter().find(|p| p.contains("/deduplication/src/")) {
                    let file = pn.split(':').next().unwrap_or("").rsplit('/').next().unwrap_or("").to_string();
                    let msg2 = format!("the code's own assertion fired in a fault-free session on valid input: {pn}");
                    rep.violation("C15", &format!("code-assertion-{file}"), &msg2, wit(&msg2));
                    if !file.contains("raw_xorb_data") {
                        rep.violation("C02", &format!("code-assertion-{file}"), &msg2, wit(&msg2));
                    }
                } else if !session_panics.is_empty() {
                    rep.count("C01", "sessions_failed_by_panic_outside_deduplication", 1);
                }
                if rep.p("C01").inconclusive_notes.len() < 5 {
                    rep.p("C01").inconclusive_notes.push(format!("fault-free session failed (case {k}, session {si}): {msg}"));
                }
                break;
            }
            let v = judge_success_session(rep, &d, &l, spec, &out, &mut st, &wit, true, &mut rng);
            let kinds: Vec<&str> = v.kinds.iter().cloned().collect();
            let nontrivial = v.kinds.contains("dedup") || v.kinds.contains("multi-xorb") || v.kinds.contains("shared-xorb");
            let sig = format!("{cfg_id}|s{si}|f{}|w{}|cc{}|{}", spec.files.len().min(8), spec.workers, spec.concurrent as u8, kinds.join("+"));
            for p in ["C01", "C11", "C15", "C16"] {
                rep.case(p, if nontrivial { Some(sig.clone()) } else { None });
            }
            for kd in &kinds {
                rep.count("C01", &format!("sessions_with_{kd}"), 1);
            }
            rep.count("C01", "files_round_tripped", spec.files.len() as u64);
            if spec.cache_alias.is_some() {
                rep.count("C11", "sessions_through_a_second_manager_instance", 1);
            }
            for p in SESSION_PROPS {
                if rep.wants_sample(p) && nontrivial {
                    let mut s = wit("sample");
                    s["kinds"] = json!(kinds);
                    s["puts"] = json!(v.n_puts);
                    s["shards_uploaded"] = json!(v.n_shards);
                    s["session_metrics"] = m_json(&out.finalize.as_ref().unwrap().as_ref().unwrap().0);
                    rep.sample(p, s);
                }
            }
        }
    }
    rep.count("C01", "sessions_total", total_sessions);
    if failed_sessions * 50 > total_sessions.max(1) {
        rep.inconclusive("C01", &format!("{failed_sessions} of {total_sessions} fault-free sessions failed on valid input"));
    }
    let _ = hexb;
}

// ------------------------------------------------------------------------------------------------
// engine "faults": C16 fault enumeration over the store calls of one session

fn judge_order_only(rep: &mut Report, out: &SessionOutcome, known_before: &HashSet<H>, wit: &dyn Fn(&str) -> Value) -> usize {
    let log = &out.log;
    let put_ends: Vec<&Event> = log.iter().filter(|e| e.op == Op::Put && !e.start).collect();
    let shards = parse_uploaded_shards(log).unwrap_or_default();
    for s in &shards {
        for f in &s.files {
            for seg in &f.segments {
                let x = hb(&seg.cas_hash);
                let ok = known_before.contains(&x) || put_ends.iter().any(|p| p.ok && hb(&p.key) == x && p.seq < s.seq);
                if !ok {
                    let failed_put = put_ends.iter().any(|p| !p.ok && hb(&p.key) == x);
                    rep.violation(
                        "C16",
                        if failed_put { "shard-references-failed-xorb" } else { "shard-before-xorb" },
                        "a shard was handed to the store although a xorb it references had not been stored successfully",
                        wit(&format!("xorb {} (its put failed: {failed_put})", seg.cas_hash.hex())),
                    );
                }
            }
        }
    }
    shards.len()
}

pub fn run_faults(args: &Args, rep: &mut Report) {
    const P: &str = "C16";
    let l = match limits() {
        Ok(l) => l,
        Err(e) => {
            rep.inconclusive(P, &e);
            return;
        },
    };
    let o = GenOpts {
        max_sessions: 2,
        max_files: args.usize("max-files", 5),
        max_file_bytes: args.usize("max-file-bytes", 30 * l.target * 4),
        min_file_bytes: 0,
        allow_global: false,
        interleave: false,
        repeat_bias: false,
        defrag_focus: false,
        storm: false,
        alias_bias: false,
    };
    let max_points = args.usize("max-points", 20);
    let cfg_id = format!("t{}|xb{}|xc{}", l.target, l.max_xorb_bytes, l.max_xorb_chunks);
    for (k, mut rng) in case_iter(args, 0xFA17, 6) {
        let hist = gen_history(&mut rng, &l, &o);
        let target_idx = hist.len() - 1;
        // prepare the prior state once, then copy the directory for every fault run
        let base = tempfile::tempdir().expect("tempdir");
        let bd = Dirs { root: base.path().join("base") };
        std::fs::create_dir_all(&bd.root).unwrap();
        let mut st = HistoryState { view: StoreView::default(), files_bytes: Vec::new() };
        let mut prior_ok = true;
        for spec in hist.iter().take(target_idx) {
            let out = run_session(&bd, spec, Plan::default(), ErrPolicy::AbandonSession);
            if !(out.setup_error.is_none() && out.files.iter().all(|f| f.result.is_ok()) && matches!(out.finalize, Some(Ok(_)))) {
                prior_ok = false;
                break;
            }
        }
        if !prior_ok {
            rep.inconclusive(P, "prior session failed");
            continue;
        }
        let _ = scan_store(&bd, &mut st.view, false);
        let known_before: HashSet<H> = st.view.xorbs.keys().cloned().collect();
        let spec = &hist[target_idx];
        let copy_base = |name: &str| -> Dirs {
            let dst = base.path().join(name);
            copy_dir(&bd.root, &dst);
            Dirs { root: dst }
        };
        // baseline
        let d0 = copy_base("run-baseline");
        let out0 = run_session(&d0, spec, Plan::default(), ErrPolicy::AbandonSession);
        let _ = std::fs::remove_dir_all(&d0.root);
        let ok0 = out0.setup_error.is_none() && out0.files.len() == spec.files.len() && out0.files.iter().all(|f| f.result.is_ok()) && matches!(out0.finalize, Some(Ok(_)));
        if !ok0 {
            rep.inconclusive(P, "baseline session failed without fault");
            continue;
        }
        let n_put = out0.log.iter().filter(|e| e.op == Op::Put && e.start).count();
        let n_sh = out0.log.iter().filter(|e| e.op == Op::UploadShard && e.start).count();
        let mut points: Vec<Vec<(Op, usize)>> = Vec::new();
        for i in 0..n_put {
            points.push(vec![(Op::Put, i)]);
        }
        for j in 0..n_sh {
            points.push(vec![(Op::UploadShard, j)]);
        }
        let exhaustive_single = points.len() <= max_points;
        if !exhaustive_single {
            rng.shuffle(&mut points);
            points.truncate(max_points);
        }
        // random multi-fault sets
        for _ in 0..(max_points / 3).max(2) {
            let nfa = rng.urange(2, 4);
            let mut set = Vec::new();
            for _ in 0..nfa {
                if n_put > 0 && rng.chance(3, 4) {
                    set.push((Op::Put, rng.usize_below(n_put)));
                } else if n_sh > 0 {
                    set.push((Op::UploadShard, rng.usize_below(n_sh)));
                }
            }
            if !set.is_empty() {
                points.push(set);
            }
        }
        if exhaustive_single {
            rep.count(P, "sessions_with_every_single_fault_point_enumerated", 1);
        }
        for (pi, set) in points.iter().enumerate() {
            let policy = if pi % 2 == 0 { ErrPolicy::AbandonSession } else { ErrPolicy::FinalizeRest };
            let mut spec2 = spec.clone();
            spec2.delay_seed = if rng.chance(2, 3) { Some(rng.next_u64()) } else { None };
            spec2.workers = *rng.pick(&[1usize, 4, 16]);
            let d = copy_base(&format!("run-{pi}"));
            let mut plan = Plan::default();
            for f in set {
                plan.fail.insert(*f, ());
            }
            let out = run_session(&d, &spec2, plan, policy);
            let wit = |what: &str| {
                let mut w = witness_base(args, "faults", k);
                w["config"] = json!(cfg_id);
                w["fault_set"] = json!(set.iter().map(|(o2, i)| format!("{o2:?}#{i}")).collect::<Vec<_>>());
                w["policy"] = json!(format!("{policy:?}"));
                w["session"] = session_json(&spec2);
                w["baseline_puts"] = json!(n_put);
                w["baseline_shard_uploads"] = json!(n_sh);
                w["what"] = json!(what);
                w
            };
            if out.setup_error.is_some() {
                rep.inconclusive(P, "session setup failed");
                let _ = std::fs::remove_dir_all(&d.root);
                continue;
            }
            let injected: Vec<&Event> = out.log.iter().filter(|e| !e.start && e.injected).collect();
            let n_shards_up = judge_order_only(rep, &out, &known_before, &wit);
            let files_ok = out.files.len() == spec2.files.len() && out.files.iter().all(|f| f.result.is_ok());
            let fin_ok = matches!(out.finalize, Some(Ok(_)));
            let where_err = if out.files.iter().any(|f| matches!(&f.result, Err(e) if e.starts_with("add_data"))) {
                "add_data"
            } else if out.files.iter().any(|f| f.result.is_err()) {
                "finish"
            } else if matches!(out.finalize, Some(Err(_))) {
                "finalize"
            } else {
                "none"
            };
            if injected.is_empty() {
                rep.count(P, "fault_runs_where_the_call_was_not_reached", 1);
                rep.case(P, None);
            } else {
                rep.count(P, "fault_runs_injected", 1);
                if files_ok && fin_ok {
                    rep.violation(P, "fault-swallowed", "a store call failed but every call of the session returned Ok", wit(&format!("{} injected failures, all calls Ok", injected.len())));
                    // consequence: files not reconstructible
                    let mut st2 = HistoryState { view: StoreView::default(), files_bytes: Vec::new() };
                    let _ = scan_store(&d, &mut st2.view, false);
                    for (fs, fo) in spec2.files.iter().zip(out.files.iter()) {
                        if let Ok((ptr, _)) = &fo.result {
                            if let Err((sig, msg)) = download_and_compare(&d, &spec2, ptr, &fs.bytes, &[], &mut rng) {
                                rep.violation(P, &format!("success-but-{sig}"), &msg, wit(&msg));
                            }
                        }
                    }
                }
                let kind = if set.len() > 1 { "multi".to_string() } else { format!("{:?}", set[0].0) };
                rep.case(P, Some(format!("{cfg_id}|{kind}|o{}|{policy:?}|cc{}|w{}|err@{where_err}|sh{}", bucket(set[0].1 + 1), spec2.concurrent as u8, spec2.workers, n_shards_up.min(3))));
                rep.count(P, &format!("error_surfaced_at_{where_err}"), 1);
                if rep.wants_sample(P) {
                    let mut s = wit("sample");
                    s["error_surfaced_at"] = json!(where_err);
                    s["shards_uploaded_in_faulty_run"] = json!(n_shards_up);
                    rep.sample(P, s);
                }
            }
            let _ = std::fs::remove_dir_all(&d.root);
        }
    }
}

fn copy_dir(src: &std::path::Path, dst: &std::path::Path) {
    std::fs::create_dir_all(dst).unwrap();
    if let Ok(rd) = std::fs::read_dir(src) {
        for e in rd.flatten() {
            let p = e.path();
            let t = dst.join(e.file_name());
            if p.is_dir() {
                copy_dir(&p, &t);
            } else {
                let _ = std::fs::copy(&p, &t);
            }
        }
    }
}
