//! C20: singleflight histories.  Every caller and every supplied task is recorded with sequence
//! numbers from one atomic counter at the client boundary; a linear checker judges the history.
use std::collections::HashMap;
use std::sync::atomic::{AtomicBool, AtomicU64, Ordering};
use std::sync::{Arc, Mutex};
use std::time::{Duration, Instant};

use utils::singleflight::{Group, SingleflightError};
use xvcommon::{case_iter, json, witness_base, Args, Report, Rng, Value};

const P: &str = "C20";

#[derive(Debug, Clone)]
pub struct SfErr(pub u64);

#[derive(Clone, Copy, Debug, PartialEq, Eq)]
enum Outcome {
    Ok,
    Err,
    Panic,
}

#[derive(Clone, Debug)]
struct TaskSpec {
    outcome: Outcome,
    yields: u32,
}

#[derive(Clone, Debug)]
struct CallerSpec {
    key: usize,
    arrival_yields: u32,
    task: TaskSpec,
}

#[derive(Clone, Debug)]
enum Res {
    Ok(u64),
    Internal(u64),
    WaiterInternal(String),
    Join,
    OwnerPanicked,
    Bug(String),
}

#[derive(Clone, Debug, Default)]
struct CallerRec {
    start: u64,
    ret: Option<u64>,
    res: Option<Res>,
    is_owner: bool,
}

#[derive(Clone, Debug, Default)]
struct TaskRec {
    exec_starts: u32,
    start: Option<u64>,
    end: Option<u64>,
}

struct Recorder {
    seq: AtomicU64,
    callers: Mutex<Vec<CallerRec>>,
    tasks: Mutex<Vec<TaskRec>>,
    returned: AtomicU64,
}

impl Recorder {
    fn tick(&self) -> u64 {
        self.seq.fetch_add(1, Ordering::SeqCst)
    }
}

fn classify(r: Result<u64, SingleflightError<SfErr>>) -> Res {
    match r {
        Ok(v) => Res::Ok(v),
        Err(SingleflightError::InternalError(e)) => Res::Internal(e.0),
        Err(SingleflightError::WaiterInternalError(s)) => Res::WaiterInternal(s),
        Err(SingleflightError::JoinError(_)) => Res::Join,
        Err(SingleflightError::OwnerPanicked) => Res::OwnerPanicked,
        Err(e) => Res::Bug(format!("{e:?}")),
    }
}

async fn run_history(g: Arc<Group<u64, SfErr>>, specs: Vec<CallerSpec>, rec: Arc<Recorder>, nworkers: usize) -> (bool, bool) {
    let n = specs.len();
    {
        *rec.callers.lock().unwrap() = vec![CallerRec::default(); n];
        *rec.tasks.lock().unwrap() = vec![TaskRec::default(); n];
    }
    let mut handles = Vec::new();
    for (i, sp) in specs.iter().cloned().enumerate() {
        let g = g.clone();
        let rec = rec.clone();
        handles.push(tokio::spawn(async move {
            for _ in 0..sp.arrival_yields {
                tokio::task::yield_now().await;
            }
            let key = format!("key{}", sp.key);
            let rec2 = rec.clone();
            let task = sp.task.clone();
            let fut = async move {
                {
                    let s = rec2.tick();
                    let mut t = rec2.tasks.lock().unwrap();
                    t[i].exec_starts += 1;
                    t[i].start = Some(s);
                }
                for _ in 0..task.yields {
                    tokio::task::yield_now().await;
                }
                // the end stamp is taken before the outcome leaves the task
                let e = rec2.tick();
                rec2.tasks.lock().unwrap()[i].end = Some(e);
                match task.outcome {
                    Outcome::Ok => Ok(i as u64),
                    Outcome::Err => Err(SfErr(i as u64)),
                    Outcome::Panic => panic!("xv task {i} panics"),
                }
            };
            // call event before invoking, return event after the reply
            let s = rec.tick();
            rec.callers.lock().unwrap()[i].start = s;
            let (r, is_owner) = g.work(&key, fut).await;
            let e = rec.tick();
            {
                let mut c = rec.callers.lock().unwrap();
                c[i].ret = Some(e);
                c[i].res = Some(classify(r));
                c[i].is_owner = is_owner;
            }
            rec.returned.fetch_add(1, Ordering::SeqCst);
        }));
    }
    // bounded-progress monitor
    let deadline = Instant::now() + Duration::from_secs(60);
    let mut stuck_rounds = 0;
    let mut stuck_since: Option<Instant> = None;
    let mut lost = false;
    let mut watchdog = false;
    loop {
        if rec.returned.load(Ordering::SeqCst) as usize == n {
            break;
        }
        if Instant::now() > deadline {
            watchdog = true;
            break;
        }
        // cheap wait first: most histories finish within a few scheduler turns
        for _ in 0..300 {
            tokio::task::yield_now().await;
            if rec.returned.load(Ordering::SeqCst) as usize == n {
                break;
            }
        }
        if rec.returned.load(Ordering::SeqCst) as usize == n {
            break;
        }
        let before = rec.returned.load(Ordering::SeqCst);
        // is every started task finished and has every owner of a started task returned?
        let quiescent = {
            let t = rec.tasks.lock().unwrap();
            let c = rec.callers.lock().unwrap();
            (0..n).all(|i| t[i].start.is_none() || (t[i].end.is_some() && c[i].ret.is_some()))
        };
        // probe: the scheduler demonstrably runs everything runnable
        let mut probes = Vec::new();
        for _ in 0..(4 * nworkers.max(1)) {
            probes.push(tokio::spawn(async {
                for _ in 0..1000 {
                    tokio::task::yield_now().await;
                }
            }));
        }
        for p in probes {
            let _ = p.await;
        }
        let after = rec.returned.load(Ordering::SeqCst);
        if quiescent && after == before && after as usize != n {
            // re-check quiescence after the probes (a pending caller may have become an owner meanwhile)
            let still = {
                let t = rec.tasks.lock().unwrap();
                let c = rec.callers.lock().unwrap();
                (0..n).all(|i| t[i].start.is_none() || (t[i].end.is_some() && c[i].ret.is_some()))
            };
            if still {
                stuck_rounds += 1;
                if stuck_since.is_none() {
                    stuck_since = Some(Instant::now());
                }
                // give an OS-preempted worker thread (whose LIFO slot is not stealable) real time to run
                tokio::time::sleep(Duration::from_millis(40)).await;
            } else {
                stuck_rounds = 0;
                stuck_since = None;
            }
        } else {
            stuck_rounds = 0;
            stuck_since = None;
        }
        // the logical condition must hold over many probe rounds AND a generous stretch of wall-clock
        // time; the wall clock alone never decides
        if stuck_rounds >= 20 && stuck_since.map(|t| t.elapsed() >= Duration::from_secs(4)).unwrap_or(false) {
            lost = true;
            break;
        }
    }
    if lost || watchdog {
        for h in &handles {
            h.abort();
        }
    }
    for h in handles {
        let _ = h.await;
    }
    (lost, watchdog)
}

fn parse_waiter_id(s: &str) -> Option<u64> {
    // Debug form of SfErr: "SfErr(<id>)"
    let a = s.find("SfErr(")? + 6;
    let b = s[a..].find(')')? + a;
    s[a..b].parse().ok()
}

struct Verdict {
    flights: usize,
    joiners: usize,
    problems: Vec<(String, String)>,
}

fn check(specs: &[CallerSpec], callers: &[CallerRec], tasks: &[TaskRec]) -> Verdict {
    let n = specs.len();
    let mut problems = Vec::new();
    let mut flights = 0;
    let mut joiners = 0;
    let mut owners_of: HashMap<u64, Vec<usize>> = HashMap::new();
    for i in 0..n {
        let (c, t) = (&callers[i], &tasks[i]);
        if t.exec_starts > 1 {
            problems.push(("sf-task-ran-twice".into(), format!("task {i} executed {} times", t.exec_starts)));
        }
        if t.exec_starts == 1 {
            flights += 1;
        }
        let Some(res) = &c.res else { continue };
        if c.is_owner && t.exec_starts == 0 {
            problems.push(("sf-owner-task-not-run".into(), format!("caller {i} flagged owner but its task never ran")));
        }
        if !c.is_owner && t.exec_starts > 0 {
            problems.push(("sf-nonowner-task-ran".into(), format!("caller {i} flagged non-owner but its task ran")));
        }
        if let Res::Bug(b) = res {
            problems.push(("sf-internal-bug-variant".into(), format!("caller {i} received internal error variant {b}")));
            continue;
        }
        // which task does the result name?
        let named: Option<u64> = match res {
            Res::Ok(v) => Some(*v),
            Res::Internal(e) => Some(*e),
            Res::WaiterInternal(s) => parse_waiter_id(s),
            _ => None,
        };
        if let Res::WaiterInternal(s) = res {
            if named.is_none() {
                problems.push(("sf-waiter-error-text".into(), format!("caller {i}: waiter error text {s:?} does not carry the task's error")));
                continue;
            }
        }
        match named {
            Some(r) => {
                let r = r as usize;
                if r >= n {
                    problems.push(("sf-unknown-task".into(), format!("caller {i} received a value of unknown task {r}")));
                    continue;
                }
                if specs[r].key != specs[i].key {
                    problems.push(("sf-cross-key".into(), format!("caller {i} (key {}) received the outcome of task {r} of key {}", specs[i].key, specs[r].key)));
                }
                if tasks[r].exec_starts == 0 {
                    problems.push(("sf-result-of-unrun-task".into(), format!("caller {i} received the outcome of task {r} which never ran")));
                }
                let want = specs[r].task.outcome;
                let ok_kind = match (res, want, c.is_owner) {
                    (Res::Ok(_), Outcome::Ok, _) => true,
                    (Res::Internal(_), Outcome::Err, true) => true,
                    // the error reaches every caller of the flight either as the original value or as
                    // its text form; the property does not prescribe which variant the owner sees
                    // (in this code base the owner, too, receives the text form)
                    (Res::WaiterInternal(_), Outcome::Err, _) => true,
                    _ => false,
                };
                if !ok_kind {
                    problems.push(("sf-wrong-outcome-kind".into(), format!("caller {i} (owner={}) received {res:?} but task {r} ended with {want:?}", c.is_owner)));
                }
                if c.is_owner {
                    if r != i {
                        problems.push(("sf-owner-got-other-task".into(), format!("owner caller {i} received the outcome of task {r}")));
                    }
                    owners_of.entry(r as u64).or_default().push(i);
                } else {
                    joiners += 1;
                    if r == i {
                        problems.push(("sf-nonowner-own-task".into(), format!("non-owner caller {i} received its own task's outcome")));
                    }
                    // a call made after the owning call of a finished flight has returned starts a new flight
                    if let Some(oret) = callers[r].ret {
                        if c.start > oret {
                            problems.push(("sf-joined-finished-flight".into(), format!("caller {i} started (seq {}) after the owning call of task {r} had returned (seq {oret}) and still received that flight's outcome", c.start)));
                        }
                    }
                    // the task it joined must have been running or finished while the caller was in its call
                    if let (Some(ts), Some(cr)) = (tasks[r].start, c.ret) {
                        if ts > cr {
                            problems.push(("sf-result-from-future".into(), format!("caller {i} returned before task {r} started")));
                        }
                    }
                }
            },
            None => {
                // panic notifications carry no id: owner JoinError / waiters OwnerPanicked
                match res {
                    Res::Join => {
                        if !c.is_owner || specs[i].task.outcome != Outcome::Panic {
                            problems.push(("sf-join-error-misplaced".into(), format!("caller {i} (owner={}) got JoinError but its task outcome is {:?}", c.is_owner, specs[i].task.outcome)));
                        }
                        owners_of.entry(i as u64).or_default().push(i);
                    },
                    Res::OwnerPanicked => {
                        joiners += 1;
                        if c.is_owner {
                            problems.push(("sf-owner-got-ownerpanicked".into(), format!("owner caller {i} got OwnerPanicked")));
                        }
                        // there must be a panicking task of the same key whose owning call had not returned before this call started
                        let exists = (0..n).any(|r| {
                            r != i && specs[r].key == specs[i].key && specs[r].task.outcome == Outcome::Panic && tasks[r].exec_starts == 1 && callers[r].ret.map(|x| x > c.start).unwrap_or(true)
                        });
                        if !exists {
                            problems.push(("sf-ownerpanicked-without-panic".into(), format!("caller {i} got OwnerPanicked but no panicking flight of its key overlaps its call")));
                        }
                    },
                    _ => {},
                }
            },
        }
    }
    for (r, os) in owners_of {
        if os.len() > 1 {
            problems.push(("sf-two-owners".into(), format!("task {r} has {} owners", os.len())));
        }
    }
    // an executed task must have exactly its supplier as owner
    for i in 0..n {
        if tasks[i].exec_starts == 1 && callers[i].res.is_some() && !callers[i].is_owner {
            // already reported as sf-nonowner-task-ran
        }
    }
    Verdict { flights, joiners, problems }
}

enum RtKind {
    Current,
    Multi(usize),
    Pool,
}

/// Flights with 65535 / 65536 / 65537 callers on one key (the width of a 16-bit waiter counter): the task is held at a
/// gate until every caller has registered (counted at the hook point behind `get_future`), then released; one task
/// must have run and every caller must get its value.
fn run_big(args: &Args, rep: &mut Report) {
    const P: &str = "C20";
    let registered = Arc::new(AtomicU64::new(0));
    {
        let r = registered.clone();
        utils::verif::set_point_callback(Some(Arc::new(move |name: &'static str| {
            if name == "sf.after_get_future" {
                r.fetch_add(1, Ordering::SeqCst);
            }
        })));
    }
    let sizes: Vec<usize> = if args.has("all-sizes") { vec![65535, 65536, 65537, 131072] } else { vec![65536, 65537] };
    for (ri, workers) in [0usize, 4].into_iter().enumerate() {
        let rt = if workers == 0 {
            tokio::runtime::Builder::new_current_thread().enable_all().build().unwrap()
        } else {
            tokio::runtime::Builder::new_multi_thread().worker_threads(workers).enable_all().build().unwrap()
        };
        for &n in &sizes {
            registered.store(0, Ordering::SeqCst);
            let g: Arc<Group<u64, SfErr>> = Arc::new(Group::new());
            let execs = Arc::new(AtomicU64::new(0));
            let done = Arc::new(AtomicU64::new(0));
            let wrong = Arc::new(AtomicU64::new(0));
            let (gate_tx, gate_rx) = tokio::sync::watch::channel(false);
            let reg = registered.clone();
            let (execs2, done2, wrong2) = (execs.clone(), done.clone(), wrong.clone());
            let verdict: Result<(u64, u64, u64), String> = rt.block_on(async move {
                for _ in 0..n {
                    let (g, execs, done, wrong) = (g.clone(), execs2.clone(), done2.clone(), wrong2.clone());
                    let mut rx = gate_rx.clone();
                    tokio::spawn(async move {
                        let fut = async move {
                            execs.fetch_add(1, Ordering::SeqCst);
                            while !*rx.borrow() {
                                if rx.changed().await.is_err() {
                                    break;
                                }
                            }
                            Ok::<u64, SfErr>(7)
                        };
                        let (r, _) = g.work("big", fut).await;
                        if !matches!(r, Ok(7)) {
                            wrong.fetch_add(1, Ordering::SeqCst);
                        }
                        done.fetch_add(1, Ordering::SeqCst);
                    });
                }
                // all callers registered?
                let t0 = Instant::now();
                while (reg.load(Ordering::SeqCst) as usize) < n {
                    if t0.elapsed() > Duration::from_secs(120) {
                        return Err(format!("only {} of {n} callers registered within 120 s", reg.load(Ordering::SeqCst)));
                    }
                    tokio::time::sleep(Duration::from_millis(5)).await;
                }
                let _ = gate_tx.send(true);
                // bounded progress: the logical condition (task finished, callers still pending) must persist over many
                // scheduler rounds and several seconds before it counts
                let t1 = Instant::now();
                let mut rounds = 0u64;
                loop {
                    let d = done2.load(Ordering::SeqCst);
                    if d as usize == n {
                        break;
                    }
                    rounds += 1;
                    if rounds >= 40 && t1.elapsed() > Duration::from_secs(20) {
                        break;
                    }
                    tokio::time::sleep(Duration::from_millis(100)).await;
                }
                Ok((done2.load(Ordering::SeqCst), execs2.load(Ordering::SeqCst), wrong2.load(Ordering::SeqCst)))
            });
            let mut w = witness_base(args, "sflight", ri as u64);
            w["mode"] = json!("one flight with many callers");
            w["callers"] = json!(n);
            w["runtime_workers"] = json!(workers);
            match verdict {
                Err(e) => rep.inconclusive(P, &e),
                Ok((d, ex, wr)) => {
                    if (d as usize) < n {
                        rep.violation(P, "sf-lost-waiter-big-flight", &format!("{} of {n} callers of one flight never got an answer although the task finished (20 s, 40+ scheduler rounds)", n - d as usize), w.clone());
                    } else if ex != 1 {
                        rep.violation(P, "sf-task-ran-more-than-once", &format!("{ex} task executions for one flight of {n} callers"), w.clone());
                    } else if wr != 0 {
                        rep.violation(P, "sf-wrong-value", &format!("{wr} of {n} callers got something else than the task's value"), w.clone());
                    } else {
                        rep.count(P, "big_flights_all_callers_answered", 1);
                    }
                    rep.case(P, Some(format!("big|n{n}|w{workers}")));
                },
            }
        }
        rt.shutdown_timeout(Duration::from_secs(5));
    }
    utils::verif::set_point_callback(None);
}

pub fn run(args: &Args, rep: &mut Report) {
    if args.has("big-flight") {
        run_big(args, rep);
        return;
    }
    // runtimes are reused across histories (a fresh Group per history)
    let rts: Vec<(String, RtKind, Option<tokio::runtime::Runtime>, Option<Arc<xet_threadpool::ThreadPool>>)> = vec![
        ("current".into(), RtKind::Current, Some(tokio::runtime::Builder::new_current_thread().enable_all().build().unwrap()), None),
        ("multi2".into(), RtKind::Multi(2), Some(tokio::runtime::Builder::new_multi_thread().worker_threads(2).enable_all().build().unwrap()), None),
        ("multi4".into(), RtKind::Multi(4), Some(tokio::runtime::Builder::new_multi_thread().worker_threads(4).enable_all().build().unwrap()), None),
        ("multi16".into(), RtKind::Multi(16), Some(tokio::runtime::Builder::new_multi_thread().worker_threads(16).enable_all().build().unwrap()), None),
        ("threadpool".into(), RtKind::Pool, None, Some(Arc::new(xet_threadpool::ThreadPool::new().expect("threadpool")))),
    ];
    let perturb_on = Arc::new(AtomicBool::new(false));
    let hook_hits = Arc::new(AtomicU64::new(0));
    {
        // perturbed mode: widen the windows between map lock, result lock and notifier
        let on = perturb_on.clone();
        let hits = hook_hits.clone();
        let r = Mutex::new(Rng::new(args.u64("seed", 1) ^ 0x5f11));
        utils::verif::set_point_callback(Some(Arc::new(move |name: &'static str| {
            if !name.starts_with("sf.") {
                return;
            }
            hits.fetch_add(1, Ordering::Relaxed);
            if !on.load(Ordering::Relaxed) {
                return;
            }
            let spin = {
                let mut g = r.lock().unwrap();
                if g.chance(1, 2) {
                    0
                } else {
                    g.below(60)
                }
            };
            if spin > 0 {
                let t = Instant::now();
                while t.elapsed() < Duration::from_micros(spin) {
                    std::hint::spin_loop();
                }
            }
        })));
        let on2 = perturb_on.clone();
        let r2 = Mutex::new(Rng::new(args.u64("seed", 1) ^ 0xa511));
        utils::verif::set_async_point_callback(Some(Arc::new(move |_name: &'static str| {
            if !on2.load(Ordering::Relaxed) {
                return 0;
            }
            r2.lock().unwrap().below(4) as u32
        })));
    }
    for (k, mut rng) in case_iter(args, 0xC20, 500) {
        let nkeys = rng.urange(1, 4);
        let ncallers = match rng.below(6) {
            0 => 2,
            1 => rng.urange(2, 4),
            2 => rng.urange(20, 64),
            _ => rng.urange(2, 16),
        };
        let mix = rng.below(4); // 0: all ok, 1: ok+err, 2: ok+err+panic, 3: mostly failing
        let specs: Vec<CallerSpec> = (0..ncallers)
            .map(|_| {
                let outcome = match mix {
                    0 => Outcome::Ok,
                    1 => {
                        if rng.chance(1, 3) {
                            Outcome::Err
                        } else {
                            Outcome::Ok
                        }
                    },
                    2 => *rng.pick(&[Outcome::Ok, Outcome::Ok, Outcome::Err, Outcome::Panic]),
                    _ => *rng.pick(&[Outcome::Err, Outcome::Panic, Outcome::Ok]),
                };
                CallerSpec {
                    key: rng.usize_below(nkeys),
                    arrival_yields: if rng.chance(1, 2) { 0 } else { rng.below(8) as u32 },
                    task: TaskSpec { outcome, yields: rng.below(4) as u32 },
                }
            })
            .collect();
        let rti = rng.usize_below(rts.len());
        let perturbed = rng.chance(1, 2);
        perturb_on.store(perturbed, Ordering::Relaxed);
        let rec = Arc::new(Recorder {
            seq: AtomicU64::new(0),
            callers: Mutex::new(Vec::new()),
            tasks: Mutex::new(Vec::new()),
            returned: AtomicU64::new(0),
        });
        let g: Arc<Group<u64, SfErr>> = Arc::new(Group::new());
        let nworkers = match rts[rti].1 {
            RtKind::Current => 1,
            RtKind::Multi(n) => n,
            RtKind::Pool => 8,
        };
        let fut = run_history(g, specs.clone(), rec.clone(), nworkers);
        let (lost, watchdog) = match (&rts[rti].2, &rts[rti].3) {
            (Some(rt), _) => rt.block_on(async move { tokio::spawn(fut).await.unwrap_or((false, true)) }),
            (None, Some(tp)) => tp.external_run_async_task(fut).unwrap_or((false, true)),
            _ => unreachable!(),
        };
        let callers = rec.callers.lock().unwrap().clone();
        let tasks = rec.tasks.lock().unwrap().clone();
        let w = |what: &str| -> Value {
            let mut w = witness_base(args, "sflight", k);
            w["runtime"] = json!(rts[rti].0);
            w["perturbed"] = json!(perturbed);
            w["callers"] = json!(specs.iter().map(|s| format!("k{} +{}y task:{:?}/{}y", s.key, s.arrival_yields, s.task.outcome, s.task.yields)).collect::<Vec<_>>());
            w["history"] = json!(callers
                .iter()
                .zip(tasks.iter())
                .enumerate()
                .map(|(i, (c, t))| format!("c{i}: call[{},{:?}] owner={} res={:?} | task exec[{:?},{:?}] x{}", c.start, c.ret, c.is_owner, c.res, t.start, t.end, t.exec_starts))
                .collect::<Vec<_>>());
            w["what"] = json!(what);
            w
        };
        if watchdog {
            rep.inconclusive(P, "wall-clock watchdog fired without scheduler evidence");
            continue;
        }
        if lost {
            rep.violation(P, "sf-lost-waiter", "a caller stays pending although every started task finished, every owner returned and the scheduler ran all runnable tasks three times", w("lost waiter"));
        }
        let v = check(&specs, &callers, &tasks);
        for (sig, msg) in &v.problems {
            rep.violation(P, sig, msg, w(msg));
        }
        let nontrivial = v.joiners > 0;
        let sig = format!(
            "{}|p{}|k{nkeys}|c{}|mix{mix}|f{}|j{}",
            rts[rti].0,
            perturbed as u8,
            usize::BITS - ncallers.leading_zeros(),
            usize::BITS - v.flights.leading_zeros(),
            usize::BITS - v.joiners.leading_zeros()
        );
        rep.case(P, if nontrivial && v.problems.is_empty() && !lost { Some(sig) } else { None });
        rep.count(P, "callers", ncallers as u64);
        rep.count(P, "flights", v.flights as u64);
        rep.count(P, "joiners", v.joiners as u64);
        rep.count(P, &format!("histories_{}", rts[rti].0), 1);
        if specs.iter().any(|s| s.task.outcome == Outcome::Panic) {
            rep.count(P, "histories_with_panicking_task", 1);
        }
        if rep.wants_sample(P) && nontrivial {
            rep.sample(P, w("sample"));
        }
    }
    utils::verif::set_point_callback(None);
    utils::verif::set_async_point_callback(None);
    rep.count(P, "hook_points_crossed", hook_hits.load(Ordering::Relaxed));
    // leak the runtimes' shutdown to the process exit (dropping a runtime inside another's context panics)
    for (_, _, rt, _) in rts {
        if let Some(rt) = rt {
            rt.shutdown_background();
        }
    }
}
