//! Content recipes: a file is a list of segments; recipes (not bytes) go into evidence and replays.
use xvcommon::rng::{gen_data, DataClass};
use xvcommon::{json, Rng, Value};

#[derive(Clone, Debug)]
pub enum Seg {
    Fresh { seed: u64, len: usize },
    Const { byte: u8, len: usize },
    Periodic { seed: u64, len: usize },
    LowEntropy { seed: u64, len: usize },
    /// copy from an earlier file (global index over the whole history)
    Copy { file: usize, off: usize, len: usize },
    /// copy from earlier bytes of this file
    SelfCopy { off: usize, len: usize },
    /// `repeats` x (copy_len bytes taken from consecutive, separated places of `file`, then fresh_len fresh bytes):
    /// many short dedup runs -> fragmentation prevention
    Interleave { file: usize, copy_len: usize, fresh_len: usize, repeats: usize, seed: u64 },
}

impl Seg {
    pub fn kind(&self) -> &'static str {
        match self {
            Seg::Fresh { .. } => "fresh",
            Seg::Const { .. } => "const",
            Seg::Periodic { .. } => "periodic",
            Seg::LowEntropy { .. } => "lowent",
            Seg::Copy { .. } => "copy",
            Seg::SelfCopy { .. } => "selfcopy",
            Seg::Interleave { .. } => "interleave",
        }
    }
    pub fn to_json(&self) -> Value {
        match self {
            Seg::Fresh { seed, len } => json!({"fresh": len, "seed": seed}),
            Seg::Const { byte, len } => json!({"const": len, "byte": byte}),
            Seg::Periodic { seed, len } => json!({"periodic": len, "seed": seed}),
            Seg::LowEntropy { seed, len } => json!({"lowent": len, "seed": seed}),
            Seg::Copy { file, off, len } => json!({"copy": len, "file": file, "off": off}),
            Seg::SelfCopy { off, len } => json!({"selfcopy": len, "off": off}),
            Seg::Interleave { file, copy_len, fresh_len, repeats, seed } => {
                json!({"interleave": repeats, "file": file, "copy_len": copy_len, "fresh_len": fresh_len, "seed": seed})
            },
        }
    }
}

pub fn materialize(segs: &[Seg], prior: &[Vec<u8>]) -> Vec<u8> {
    let mut out: Vec<u8> = Vec::new();
    for s in segs {
        match s {
            Seg::Fresh { seed, len } => out.extend_from_slice(&Rng::new(*seed).bytes(*len)),
            Seg::Const { byte, len } => out.extend(std::iter::repeat(*byte).take(*len)),
            Seg::Periodic { seed, len } => out.extend_from_slice(&gen_data(&mut Rng::new(*seed), DataClass::Periodic, *len)),
            Seg::LowEntropy { seed, len } => out.extend_from_slice(&gen_data(&mut Rng::new(*seed), DataClass::LowEntropy, *len)),
            Seg::Copy { file, off, len } => {
                if let Some(src) = prior.get(*file) {
                    let a = (*off).min(src.len());
                    let b = (a + *len).min(src.len());
                    out.extend_from_slice(&src[a..b]);
                }
            },
            Seg::SelfCopy { off, len } => {
                let a = (*off).min(out.len());
                let b = (a + *len).min(out.len());
                let piece = out[a..b].to_vec();
                out.extend_from_slice(&piece);
            },
            Seg::Interleave { file, copy_len, fresh_len, repeats, seed } => {
                let mut r = Rng::new(*seed);
                if let Some(src) = prior.get(*file) {
                    if src.len() > *copy_len {
                        // take pieces at increasing, separated offsets (wrapping around)
                        let stride = (*copy_len * 3).max(1);
                        let mut pos = 0usize;
                        for _ in 0..*repeats {
                            if pos + *copy_len > src.len() {
                                pos = r.usize_below(*copy_len + 1).min(src.len() - *copy_len);
                            }
                            out.extend_from_slice(&src[pos..pos + *copy_len]);
                            out.extend_from_slice(&r.bytes(*fresh_len));
                            pos += stride;
                        }
                    }
                }
            },
        }
    }
    out
}

pub struct GenCtx {
    pub target: usize,
    pub max_xorb_bytes: usize,
    pub max_xorb_chunks: usize,
    /// soft cap of one file's size
    pub max_file: usize,
    /// when non-zero, files are at least this large (big-file jobs)
    pub min_file: usize,
}

fn size_class(rng: &mut Rng, c: &GenCtx) -> usize {
    if c.min_file > 0 {
        let xb = c.max_xorb_bytes;
        let v = match rng.below(4) {
            0 => xb + rng.urange(0, 2) - 1,
            1 => 2 * xb + rng.urange(0, c.target),
            _ => rng.urange(c.min_file, c.max_file),
        };
        return v.clamp(c.min_file, c.max_file);
    }
    let t = c.target;
    let minc = t / 8;
    let maxc = t * 2;
    let xb = c.max_xorb_bytes;
    let xc = c.max_xorb_chunks * t; // roughly MAX_XORB_CHUNKS chunks
    let v = match rng.below(16) {
        0 => 0,
        1 => 1,
        2 => rng.urange(1, minc.max(2)),
        3 => minc + rng.urange(0, 2) - 1.min(minc),
        4 => maxc + rng.urange(0, 2) - 1,
        5 => xb + rng.urange(0, 2) - 1,
        6 => xb.min(xc) / 2 + rng.urange(0, t),
        7 => xc + rng.urange(0, 2 * t),
        8 => 2 * xb.min(xc) + rng.urange(0, t),
        9 => rng.urange(1, 3 * xb.min(xc).max(1)),
        _ => rng.log_range(1, (c.max_file as u64).max(2)) as usize,
    };
    v.min(c.max_file)
}

pub fn gen_recipe(rng: &mut Rng, c: &GenCtx, prior_lens: &[usize], want_dedup: u64, interleave_eighths: u64) -> Vec<Seg> {
    let total = size_class(rng, c);
    if total == 0 {
        return Vec::new();
    }
    let mut segs = Vec::new();
    let mut len_so_far = 0usize;
    // whole-file copy of an earlier file (unchanged re-upload), possibly extended
    if !prior_lens.is_empty() && rng.below(10) < want_dedup.min(9) && rng.chance(1, 3) {
        let f = rng.usize_below(prior_lens.len());
        segs.push(Seg::Copy { file: f, off: 0, len: prior_lens[f] });
        if rng.chance(1, 2) {
            segs.push(Seg::Fresh { seed: rng.next_u64(), len: rng.urange(1, 4 * c.target) });
        }
        return segs;
    }
    if interleave_eighths > 0 && !prior_lens.is_empty() && rng.chance(interleave_eighths, 8) {
        // fragmentation trigger: short dedup runs alternating with fresh data
        let candidates: Vec<usize> = (0..prior_lens.len()).filter(|i| prior_lens[*i] > 8 * c.target).collect();
        if !candidates.is_empty() {
            let f = *rng.pick(&candidates);
            let copy_len = c.target * rng.urange(2, 4);
            let fresh_len = c.target * rng.urange(1, 3);
            let repeats = (c.max_file / (copy_len + fresh_len)).clamp(4, 300);
            return vec![Seg::Interleave { file: f, copy_len, fresh_len, repeats, seed: rng.next_u64() }];
        }
    }
    while len_so_far < total {
        let remaining = total - len_so_far;
        let len = if rng.chance(1, 3) { remaining } else { rng.log_range(1, remaining as u64) as usize };
        let r = rng.below(10);
        let seg = if r < want_dedup && !prior_lens.is_empty() {
            let f = rng.usize_below(prior_lens.len());
            let fl = prior_lens[f];
            if fl == 0 {
                Seg::Fresh { seed: rng.next_u64(), len }
            } else {
                let off = rng.usize_below(fl);
                Seg::Copy { file: f, off, len: len.min(fl - off) }
            }
        } else if r < want_dedup + 2 && len_so_far > 0 {
            let off = rng.usize_below(len_so_far);
            Seg::SelfCopy { off, len: len.min(len_so_far - off) }
        } else {
            match rng.below(8) {
                0 => Seg::Const { byte: rng.next_u32() as u8, len },
                1 => Seg::Periodic { seed: rng.next_u64(), len },
                2 => Seg::LowEntropy { seed: rng.next_u64(), len },
                _ => Seg::Fresh { seed: rng.next_u64(), len },
            }
        };
        let l = match &seg {
            Seg::Fresh { len, .. } | Seg::Const { len, .. } | Seg::Periodic { len, .. } | Seg::LowEntropy { len, .. } | Seg::Copy { len, .. } | Seg::SelfCopy { len, .. } => *len,
            _ => 0,
        };
        if l == 0 {
            continue;
        }
        len_so_far += l;
        segs.push(seg);
        if segs.len() > 40 {
            break;
        }
    }
    segs
}

/// cut points for feeding `n` bytes
pub fn feed_cuts(rng: &mut Rng, n: usize, ref_boundaries: &[usize], ingestion_block: usize) -> (Vec<usize>, &'static str) {
    let (mut cuts, name): (Vec<usize>, &'static str) = match rng.below(8) {
        0 => (Vec::new(), "whole"),
        1 if n <= 4000 => ((1..n).collect(), "onebyte"),
        2 => {
            let k = rng.urange(1, 70000);
            ((1..).map(|i| i * k).take_while(|c| *c < n).collect(), "fixed")
        },
        3 => {
            let d = *rng.pick(&[-1i64, 0, 1]);
            (ref_boundaries.iter().map(|b| *b as i64 + d).filter(|c| *c > 0 && (*c as usize) < n).map(|c| c as usize).collect(), "at-boundaries")
        },
        4 => {
            // blocks larger than the ingestion block size (add_data splits internally)
            let k = ingestion_block + rng.urange(1, ingestion_block.max(2));
            ((1..).map(|i| i * k).take_while(|c| *c < n).collect(), "over-ingestion-block")
        },
        5 => {
            let mut v: Vec<usize> = (0..rng.urange(1, 10)).map(|_| rng.usize_below(n + 1)).collect();
            let dup: Vec<usize> = v.iter().take(2).cloned().collect();
            v.extend(dup); // empty calls
            v.push(0);
            (v, "random-with-empty")
        },
        _ => ((0..rng.urange(1, 12)).map(|_| rng.usize_below(n + 1)).collect(), "random"),
    };
    cuts.sort();
    (cuts, name)
}
