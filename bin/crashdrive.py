"""C19 driver: crash-point enumeration with strace SIGKILL injection.

For every (operation, prior history, seed): prepare a directory, record the pre-state, trace one
uninjected run of the victim to list the file-system effect calls its operation issues between the two
marker calls, then re-run the victim from a fresh copy of the prepared directory once per effect call
with SIGKILL injected at that call (the call is not executed: the state left behind is exactly the
first k-1 effects), and judge the directory with the checker in a new process."""
import concurrent.futures as cf
import json
import os
import re
import shutil
import subprocess
import tempfile
import zlib

import xvlib

EFFECTS = "openat,creat,write,pwrite64,writev,rename,renameat,renameat2,unlink,unlinkat,rmdir,mkdir,mkdirat,ftruncate,truncate,fsync,fdatasync,chmod,fchmod,fchmodat,chown,fchown,fchownat,link,linkat,symlink,symlinkat"
IOERR_CALLS = ("write", "pwrite64", "writev", "ftruncate", "fsync", "fdatasync", "rename", "renameat", "renameat2", "link", "linkat")
OPS = ["flush", "consolidate", "localput", "cacheput", "cacheinit"]
HISTS = ["empty", "populated", "leftovers"]

LINE = re.compile(r"^(\d+)\s+(\w+)\((.*)$")


def xv(binp, *a, env=None, timeout=120):
    e = dict(os.environ)
    e.update(xvlib.BASE_ENV)
    if env:
        e.update(env)
    return subprocess.run([binp] + list(a), env=e, stdout=subprocess.PIPE, stderr=subprocess.PIPE, text=True, timeout=timeout)


def parse_trace(path):
    """returns list of (tid, syscall, rest-of-line) in file order"""
    out = []
    try:
        for line in open(path, errors="replace"):
            m = LINE.match(line)
            if m:
                out.append((int(m.group(1)), m.group(2), m.group(3)))
    except OSError:
        pass
    return out


def is_effect(sc, rest):
    if sc == "access":
        return False
    if sc == "openat":
        return any(f in rest for f in ("O_WRONLY", "O_RDWR", "O_CREAT", "O_TRUNC", "O_APPEND"))
    if sc in ("write", "writev", "pwrite64"):
        # writes to stdout / stderr / eventfd-style wakeups are not file-system effects of the operation
        fd = rest.split(",")[0].strip()
        return fd not in ("1", "2")
    return True


def classify_path(rest):
    m = re.search(r'"([^"]*)"', rest)
    if not m:
        return "fd"
    p = os.path.basename(m.group(1))
    if p.endswith(".mdb_temp") or p.endswith(".tmp"):
        return "temp"
    if p.endswith(".mdb"):
        return "shard"
    if p.startswith("default."):
        return "xorb"
    if "mdb" in m.group(1) and "global_dedup" in m.group(1):
        return "lmdb"
    return "other"


def one_scenario(binp, op, hist, seed, big, scratch_root, max_points, modes=("kill",)):
    """returns dict(evaluations, sigs, samples, violations, counters, inconclusive)"""
    res = {"evaluations": 0, "sigs": set(), "samples": [], "violations": [], "counters": {}, "inconclusive": []}

    def count(k, n=1):
        res["counters"][k] = res["counters"].get(k, 0) + n

    root = tempfile.mkdtemp(prefix=f"xv-crash-{op}-{hist}-", dir=scratch_root)
    try:
        base = os.path.join(root, "base")
        common = ["--op", op, "--hist", hist, "--seed", str(seed)] + (["--big"] if big else [])
        r = xv(binp, "crash_prep", *common, "--dir", base)
        if r.returncode != 0:
            res["inconclusive"].append(f"prep failed for {op}/{hist}: {r.stderr[-300:]}")
            return res
        pre = os.path.join(root, "pre.json")
        r = xv(binp, "crash_check", *common, "--dir", base, "--phase", "pre", "--out", pre)
        if r.returncode != 0 or not os.path.exists(pre):
            res["inconclusive"].append(f"pre-check failed for {op}/{hist}: {r.stdout[-300:]} {r.stderr[-300:]}")
            return res
        # pass 1: uninjected, traced
        w0 = os.path.join(root, "w0")
        shutil.copytree(base, w0, symlinks=True)
        t0 = os.path.join(root, "t0.txt")
        e = dict(os.environ)
        e.update(xvlib.BASE_ENV)
        p = subprocess.run(["strace", "-f", "-qq", "-s", "200", "-o", t0, "-e", f"trace={EFFECTS},access", binp, "crash_victim"] + common + ["--dir", w0],
                           env=e, stdout=subprocess.PIPE, stderr=subprocess.PIPE, text=True, timeout=120)
        tr = parse_trace(t0)
        begin = [i for i, x in enumerate(tr) if x[1] == "access" and "xv-marker-begin" in x[2]]
        end = [i for i, x in enumerate(tr) if x[1] == "access" and "xv-marker-end" in x[2]]
        if p.returncode != 0 or not begin or not end:
            res["inconclusive"].append(f"trace pass failed for {op}/{hist} rc={p.returncode} {p.stderr[-200:]}")
            return res
        optid = tr[begin[0]][0]
        # ordinals (1-based, per thread, over the EFFECTS set = everything but access) of the op thread's calls
        # strace keeps one `when` counter per system call (and per tracee): the j-th write of the thread is
        # addressed as inject=write:when=j
        per_sc = {}
        points = []
        for i, (tid, sc, rest) in enumerate(tr):
            if tid != optid or sc == "access":
                continue
            per_sc[sc] = per_sc.get(sc, 0) + 1
            if begin[0] < i < end[0] and is_effect(sc, rest):
                points.append((per_sc[sc], sc, classify_path(rest)))
        # also "crash right after the operation's last effect" = ordinal of the first call after the end marker is not needed:
        # the state after all effects is the completed state.
        count(f"effect_calls_{op}", len(points))
        exhaustive = len(points) <= max_points
        if not exhaustive:
            # keep first/last and an even spread
            step = len(points) / max_points
            points = [points[int(i * step)] for i in range(max_points)]
        else:
            count("scenarios_with_every_crash_point", 1)
        shutil.rmtree(w0, ignore_errors=True)
        # pass 2
        for (k, sc, pclass) in (points if "kill" in modes else []):
            wk = os.path.join(root, f"w-{sc}-{k}")
            shutil.copytree(base, wk, symlinks=True)
            tk = os.path.join(root, f"t-{sc}-{k}.txt")
            p = subprocess.run(["strace", "-f", "-qq", "-s", "200", "-o", tk, "-e", f"trace={EFFECTS},access", "-e", f"inject={sc}:signal=SIGKILL:when={k}",
                                binp, "crash_victim"] + common + ["--dir", wk], env=e, stdout=subprocess.PIPE, stderr=subprocess.PIPE, text=True, timeout=120)
            trk = parse_trace(tk)
            killed = p.returncode in (137, -9) or any("killed by SIGKILL" in l for l in open(tk, errors="replace"))
            cut = None
            for (tid, s2, rest) in reversed(trk):
                if rest.rstrip().endswith("= ?") or "<unfinished" in rest:
                    cut = (tid, s2, rest.strip()[:160])
                    break
            if not killed:
                count("injected_runs_that_completed", 1)
                shutil.rmtree(wk, ignore_errors=True)
                continue
            in_op = any(x[1] == "access" and "xv-marker-begin" in x[2] for x in trk) and not any(x[1] == "access" and "xv-marker-end" in x[2] for x in trk)
            if not in_op:
                count("kills_outside_the_operation", 1)
            r = xv(binp, "crash_check", *common, "--dir", wk, "--phase", "post", "--pre", pre)
            verdict = None
            for line in r.stdout.splitlines():
                if line.startswith("XVCRASH "):
                    verdict = json.loads(line[8:])
            witness = {"engine": "crash", "op": op, "hist": hist, "seed": seed, "big": big, "when": f"{sc}#{k}", "cut_call": cut[1] + "(" + cut[2] if cut else None, "intended": f"{sc} on {pclass}"}
            if verdict is None:
                res["violations"].append({"kf_sig": f"crash-checker-died-{op}", "what": f"post-crash checker process died: rc={r.returncode} {r.stderr[-300:]}", "witness": witness})
            elif not verdict["ok"]:
                res["violations"].append({"kf_sig": f"{verdict['sig']}-{op}", "what": verdict["what"], "witness": witness})
            else:
                res["evaluations"] += 1
                cs = cut[1] if cut else sc
                res["sigs"].add(f"{op}|{hist}|{'big' if big else 'small'}|{cs}|{pclass}")
                count(f"crash_points_{op}", 1)
                count(f"cut_{cs}", 1)
                st = verdict.get("stats") or {}
                count("restart_consolidations_checked", st.get("restart_consolidations_checked", 0))
                count("pre_readable_cache_chunks_kept", st.get("pre_readable_chunks_kept", 0))
                if len(res["samples"]) < 2:
                    s = dict(witness)
                    s["checker_stats"] = verdict.get("stats")
                    res["samples"].append(s)
            shutil.rmtree(wk, ignore_errors=True)
        # pass 3: I/O errors instead of kills.  The k-th data-carrying / committing call of the operating thread fails once
        # (ENOSPC for writes, EIO otherwise), the process goes on and reports what the operation returned.  Same oracle as
        # above (nothing partial under a final name, earlier records retrievable), plus: an operation that returned Ok has
        # its own records in place.
        for (k, sc, pclass) in (points if "ioerr" in modes else []):
            if sc not in IOERR_CALLS:
                continue
            wk = os.path.join(root, f"e-{sc}-{k}")
            shutil.copytree(base, wk, symlinks=True)
            tk = os.path.join(root, f"et-{sc}-{k}.txt")
            err = "ENOSPC" if sc in ("write", "pwrite64", "writev", "ftruncate") else "EIO"
            try:
                p = subprocess.run(["strace", "-f", "-qq", "-s", "200", "-o", tk, "-e", f"trace={EFFECTS},access", "-e", f"inject={sc}:error={err}:when={k}",
                                    binp, "crash_victim"] + common + ["--dir", wk], env=e, stdout=subprocess.PIPE, stderr=subprocess.PIPE, text=True, timeout=120)
            except subprocess.TimeoutExpired:
                res["inconclusive"].append(f"error-injected victim timed out ({op}/{hist} {sc}#{k})")
                shutil.rmtree(wk, ignore_errors=True)
                continue
            injected = any(f"= -1 {err}" in l and "(INJECTED)" in l for l in open(tk, errors="replace"))
            result = None
            for line in p.stdout.splitlines():
                if line.startswith("XVRESULT "):
                    result = line.split()[1]
            if not injected or result is None:
                # the call list differs from run to run (temp names, eviction victims), or the victim died (abort on I/O error)
                count("io_error_runs_not_judged", 1)
                shutil.rmtree(wk, ignore_errors=True)
                continue
            r = xv(binp, "crash_check", *common, "--dir", wk, "--phase", "post", "--pre", pre, "--op-result", result, "--fault", "ioerr")
            verdict = None
            for line in r.stdout.splitlines():
                if line.startswith("XVCRASH "):
                    verdict = json.loads(line[8:])
            witness = {"engine": "crash", "mode": "io-error", "op": op, "hist": hist, "seed": seed, "big": big, "when": f"{sc}#{k}", "error": err, "operation_returned": result, "intended": f"{sc} on {pclass}"}
            if verdict is None:
                res["violations"].append({"kf_sig": f"crash-checker-died-{op}", "what": f"checker process died after an I/O-error run: rc={r.returncode} {r.stderr[-300:]}", "witness": witness})
            elif not verdict["ok"]:
                res["violations"].append({"kf_sig": f"{verdict['sig'].replace('after-crash', 'after-io-error')}-{op}-ioerr", "what": f"after {err} injected into {sc}#{k} (operation returned {result}): " + verdict["what"], "witness": witness})
            else:
                res["evaluations"] += 1
                res["sigs"].add(f"{op}|{hist}|{'big' if big else 'small'}|ioerr-{sc}|{pclass}|{result}")
                count(f"io_error_points_{op}", 1)
                count(f"io_error_operation_returned_{result}", 1)
                st = verdict.get("stats") or {}
                count("io_error_retried_puts_judged", st.get("retried_puts_judged", 0))
                count("io_error_damaged_file_left_by_failed_put", st.get("damaged_file_left_by_failed_put", 0))
            shutil.rmtree(wk, ignore_errors=True)
    finally:
        shutil.rmtree(root, ignore_errors=True)
    return res


def run(pid, tier, seed, conf):
    t = 0 if tier == "quick" else 1
    binp = xvlib.bin_path("prodlike", "xv_full")
    scratch_root = os.environ.get("XV_SCRATCH_ROOT") or tempfile.gettempdir()
    n_seeds = conf["seeds"][t]
    max_points = conf["max_points"][t]
    modes = tuple(conf.get("crash_modes", ("kill",)))
    scenarios = []
    for op in conf.get("crash_ops", OPS):
        for hist in HISTS + (["subranges", "tight"] if op == "cacheput" else []) + (["subset"] if op == "consolidate" else []):
            if op == "cacheinit" and hist == "empty":
                continue
            for i in range(n_seeds):
                s = (seed * 1000003 + i * 7919 + zlib.crc32(f"{op}/{hist}".encode()) % 1000) & 0x7fffffff
                scenarios.append((op, hist, s, (i % 2 == 1)))
    m = {"evaluations": 0, "nontrivial": 0, "sigs": set(), "counters": {}, "samples": [], "violations": [], "violation_count": 0, "inconclusive": 0, "inconclusive_notes": []}
    inconclusive = []
    with cf.ThreadPoolExecutor(max_workers=int(os.environ.get("XV_JOBS", xvlib.NCPU))) as ex:
        futs = [ex.submit(one_scenario, binp, op, hist, s, big, scratch_root, max_points, modes) for (op, hist, s, big) in scenarios]
        for f in cf.as_completed(futs):
            try:
                r = f.result()
            except Exception as e:  # harness failure, never a violation
                inconclusive.append(f"scenario raised {e!r}")
                continue
            m["evaluations"] += r["evaluations"]
            m["nontrivial"] += r["evaluations"]
            m["sigs"].update(r["sigs"])
            for k, v in r["counters"].items():
                m["counters"][k] = m["counters"].get(k, 0) + v
            for s in r["samples"]:
                if len(m["samples"]) < 6:
                    m["samples"].append(s)
            for v in r["violations"]:
                v["_job"] = {"job": "crash", "engine": "crash", "profile": "prodlike", "env": {}}
                v["_argv"] = []
                m["violations"].append(v)
            m["violation_count"] += len(r["violations"])
            inconclusive += r["inconclusive"]
    m["inconclusive"] = len(inconclusive)
    m["inconclusive_notes"] = inconclusive[:10]
    return m, inconclusive, len(scenarios)


def replay(pid, v):
    """re-run one recorded crash point"""
    w = v["witness"]
    binp = xvlib.bin_path("prodlike", "xv_full")
    # a single scenario restricted to the recorded ordinal: simplest is to re-run the whole scenario
    r = one_scenario(binp, w["op"], w["hist"], w["seed"], w.get("big", False), tempfile.gettempdir(), 10 ** 6, ("ioerr",) if w.get("mode") == "io-error" else ("kill",))
    sigs = {x["kf_sig"] for x in r["violations"]}
    print("replay: violations seen:", sorted(sigs))
    for x in r["violations"][:5]:
        print("  ", json.dumps(x)[:1200])
    return v["kf_sig"] in sigs
