"""Registry: which jobs decide which property, with tier sizes and coverage gates.
tuples are (quick, thorough)."""
from xvlib import Job

PURE = dict(pkg="xv_pure", binname="xv_pure")

PROPS = {}

PROPS["C04"] = dict(
    level="exploration",
    technique="reference-model monitor: real Chunker vs independent gear-hash rule over seeded streams x call partitions",
    rule=("case = (target 2^7..2^20, stream class, length near min/max/boundaries, feed partition); each (stream, partition) pair is one "
          "evaluation judged against ref_chunk_boundaries; non-trivial = >=2 chunks; distinct = (target, class, length bucket, partition kind, "
          "#chunks bucket, forced-max seen, min-edge seen)"),
    assumptions=["gearhash::DEFAULT_TABLE constants are taken as data", "blake3 is correct", "streams < 4 GiB"],
    jobs=[
        Job("chunker", engine="chunker", workers=(8, 16), cases=(400, 40000), time_s=(40, 600), args={"max-target-log": (18, 20)}, **PURE),
    ],
    gates=dict(evaluations=(5000, 100000), distinct=(300, 1000),
               counters={"locality_cases": (100, 2000), "cases_with_forced_max_cut": (20, 500), "cases_with_chunk_at_minimum_edge": (10, 200)}),
)

PROPS["C06"] = dict(
    level="exploration",
    technique="reference-model monitor: aggregate/leaf/range hashes vs independent blake3 construction + golden values + validator agreement",
    rule=("case = chunk list (1..20000 entries; classes random / cut-everywhere / cut-nowhere / repeated / extreme lengths) x salt class; "
          "judged against ref merkle construction, 5 mutation kinds, text-form round trips, streaming vs one-shot, both validators; "
          "non-trivial = list of >=2 entries; distinct = (class, log2 n, salt class, validated)"),
    assumptions=["blake3 is correct and collision resistant", "a chunk hash recurs only with the same length"],
    jobs=[
        Job("hash", engine="hash", workers=(8, 16), cases=(150, 6000), time_s=(40, 700), **PURE),
    ],
    gates=dict(evaluations=(600, 20000), distinct=(40, 80), counters={"golden_checked": (9, 9), "mutations_checked": (2000, 50000), "validator_agreements": (100, 3000)}),
)

PROPS["C07"] = dict(
    level="exploration",
    technique="round-trip monitor with independent xorb parser; three chunk decoders compared; bg4 exhaustive over lengths",
    rule=("case = chunk list (1..300 chunks, lengths 1..128KiB incl. every residue mod 4, 7 data classes) x scheme {auto,none,lz4,bg4lz4}; "
          "all O(n^2) chunk ranges for n<=40 else 62 sampled; every case judged by input bytes and by ref_parse_xorb_v1; "
          "distinct = (scheme, log2 n, class set, fallback seen, residue set); bg4 split/regroup variants for every length 0..4100"),
    assumptions=["lz4_flex frame decoder is shared with the reference parser"],
    jobs=[
        Job("xorb_rt", engine="xorb_rt", workers=(8, 16), cases=(60, 4000), time_s=(40, 700), extra_workers_arg=True,
            args={"max-chunks": (300, 1200), "bg4-max-len": (4100, 20000)}, **PURE),
    ],
    gates=dict(evaluations=(300, 10000), distinct=(100, 400),
               counters={"ranges_checked": (10000, 300000), "bg4_lengths_checked": (4101, 20001), "xorbs_with_incompressible_fallback": (50, 1000)}),
    exhaustive_note="bg4 split/regroup (all variants) for every input length 0..bg4-max-len",
)

PROPS["C08"] = dict(
    level="fault_enumeration",
    technique="mutation/fault enumeration on serialized xorbs; accept-soundness judged by independent decoder; catch_unwind + counting allocator",
    rule=("base = valid xorb (v1 footer / footer-less / v0 footer); faults = every single-byte replacement (4 values) in every chunk header, "
          "footer and info_length byte and truncation at every offset for 1 in 8 small bases (exhaustive), plus 14 random mutation kinds, "
          "v0-footer mutations and random byte strings; each mutant goes through both validators, CasObject::deserialize, "
          "deserialize_only_boundaries_section and deserialize_chunks; evaluation = one mutant; distinct = (mutation kind, scheme, #chunks, size class)"),
    assumptions=["allocation limit 256 MiB per call; inputs declaring > 2^28 boundary entries are not fed to deserialize_only_boundaries_section (harness memory safety valve)"],
    jobs=[
        Job("xorb_val", engine="xorb_val", workers=(8, 16), cases=(40, 3000), time_s=(40, 700), args={"mutants": (150, 300)}, **PURE),
    ],
    gates=dict(evaluations=(50000, 2000000), distinct=(200, 400),
               counters={"valid_forms_checked": (600, 20000), "bases_with_exhaustive_header_footer_flips": (20, 500), "mutants_accepted_v1": (100, 1000)}),
    exhaustive_note="single-byte replacements over all header/footer bytes and all truncation points, for every 8th small base",
)

PROPS["C05"] = dict(
    level="exploration",
    technique="truth-table monitor: every dedup answer of the in-memory index, a serialized shard and ShardFileManager histories is judged against the ground-truth xorb contents",
    rule=("case = shard content (1..25 xorbs, up to 2500 chunks each; prefix-collision groups up to 14, duplicate chunks, optional xorb of >65535 chunks) x layer "
          "{in-memory, serialized, manager history of add/flush/register-external/consolidate+reopen/keyed-export}; 300+ queries per case of 6 kinds; "
          "evaluation = one case; non-trivial = at least one hit judged; distinct = (layer, #xorbs bucket, key space, group size, dup, big, hit/partial/collision flags)"),
    assumptions=["a miss is always allowed (completeness of lookup is not claimed)", "queries are non-empty"],
    jobs=[
        Job("shard_dedup", engine="shard_dedup", workers=(8, 16), cases=(30, 3000), time_s=(40, 700), args={"queries": (300, 1500)}, **PURE),
    ],
    gates=dict(evaluations=(200, 5000), distinct=(40, 100),
               counters={"hits": (5000, 500000), "partial_hits": (1000, 100000), "collision_resolved_hits": (1000, 100000), "manager_op_keyed-export": (5, 100), "manager_op_consolidate-reopen": (5, 100)}),
)

PROPS["C09"] = dict(
    level="exploration",
    technique="reference-model monitor: serialized shard vs the record maps it was built from, through seekable / streaming / minimal readers; search_on_sorted_u64s vs exact table",
    rule=("case = model (0..thousands of file / xorb records, key spaces uniform / clustered / extremes / prefix-collision groups <=7, all flag combinations, empty records) "
          "serialized and read back: every present key (or 400 sampled) and same-prefix absent keys looked up, all scans, footer totals, size accounting, 3 reader families; "
          "plus sorted-u64 tables of 0..50000 keys where every present key, its neighbours and extremes are searched; non-trivial = >=2 records / keys; "
          "distinct = (size buckets, key spaces, flags) resp. (table size bucket, class)"),
    assumptions=["shards < 4 GiB", "size clause judged on shards built from distinct records"],
    jobs=[
        Job("shard_fmt", engine="shard_fmt", workers=(8, 12), cases=(40, 2500), time_s=(40, 700), args={"scale": (4, 40)}, **PURE),
        Job("shard_search", engine="shard_search", workers=(4, 4), cases=(60, 6000), time_s=(40, 700), args={"max-table": (50000, 200000)}, **PURE),
    ],
    gates=dict(evaluations=(400, 20000), distinct=(150, 400),
               counters={"lookups": (20000, 1000000), "search_queries": (500000, 20000000), "tables_beyond_read_window": (50, 2000)}),
)

PROPS["C10"] = dict(
    level="exploration",
    technique="reference-model monitor: union/difference (in-memory, buffer and file forms) vs set operations on record maps, outputs re-judged by the C09 oracle; consolidation judged by before/after directory scans",
    rule=("pairs drawn from a universe of full records with per-shard flag subsets (relations identical / empty / disjoint / overlapping; all 4x4 flag pairs; prefix collisions); "
          "consolidation over directories of 0..40 shards (duplicates, empty shards, leftovers) with thresholds from 'nothing merges' to 'everything merges'; "
          "non-trivial = >=2 records resp. >=2 shards; distinct = (relation, common-file bucket, flag-pair set, sizes) resp. (before, after, threshold class)"),
    assumptions=["a file present in both inputs has identical segments / verification / metadata where present"],
    jobs=[
        Job("shard_setops", engine="shard_setops", workers=(8, 12), cases=(250, 20000), time_s=(40, 700), **PURE),
        Job("shard_consolidate", engine="shard_consolidate", workers=(4, 4), cases=(50, 5000), time_s=(40, 700), **PURE),
    ],
    gates=dict(evaluations=(1500, 50000), distinct=(200, 1000),
               counters={"setop_pairs": (1500, 50000), "consolidations": (150, 5000), "consolidations_that_merged": (50, 1000), "flagpair_1_2": (20, 200), "flagpair_2_1": (20, 200)}),
)

PROPS["C18"] = dict(
    level="exploration",
    technique="monitor over keyed exports (independent hmac, byte search for plain hashes, manager answers vs original) and crafted-footer expiry predicates",
    rule=("case = shard x key (incl. zero key) x 8 include-flag combinations: exported bytes judged for keyed chunk hashes, absence of plain hashes, tables present/absent, file records, "
          "expiry stamp, and 120 unkeyed manager queries compared with the original shard's answers (exact equality when chunk hashes are unique); "
          "expiry cases = directories of shards with crafted (creation, expiry) footers x grace buffer, judged with a 5 s margin around now; distinct = flag/zero/unique/size resp. buffer/outcome classes"),
    assumptions=["secrecy of keyed blake3 itself is not checked", "wall clock only enters through a 5 s margin"],
    jobs=[
        Job("shard_keyed", engine="shard_keyed", workers=(8, 12), cases=(40, 3000), time_s=(40, 700), **PURE),
        Job("shard_expiry", engine="shard_expiry", workers=(4, 4), cases=(100, 10000), time_s=(40, 700), **PURE),
    ],
    gates=dict(evaluations=(500, 20000), distinct=(40, 80),
               counters={"keyed_exports": (300, 10000), "keyed_answers_identical": (10000, 500000), "zero_key_exports": (20, 500), "expired_shards_checked": (300, 10000), "valid_shards_checked": (300, 10000), "shards_deleted_by_clean": (100, 5000),
                         "flags_000": (10, 100), "flags_111": (10, 100)}),
)

LEVEL_TEXT = {
    "C04": "Held on the explored (stream, partition, target) cases: the real chunker's output was compared chunk by chunk with an independent implementation of the gear-hash rule, plus bounds, concatenation, hash and locality clauses. Sampling, not proof; adversarial and boundary-biased generators make the sample hostile.",
    "C06": "Held on the explored chunk lists / byte strings: every aggregate, leaf and range hash equalled an independent blake3 construction and committed golden values; 4 mutation kinds changed the aggregate; both validators recomputed the uploader's hash.",
    "C07": "Held on the explored xorbs: every byte, range, boundary and offset returned by the reader equalled the input and an independent parser's view; sync/async/stream chunk decoders agreed; bg4 exhaustive over lengths.",
    "C05": "Held on the explored shard contents / query sequences / manager histories: every answer was checked position by position against the ground truth of everything ever added (hash equality, range inside the xorb, byte sum). Hits, partial hits and collision-resolved hits are counted and gated so the run cannot be vacuous.",
    "C09": "Held on the explored models: lookups, scans, totals and size accounting of the serialized shard equalled the record maps; absent keys (also with shared prefix) returned not-found; three reader families agreed; the search routine was exercised far beyond its 256-entry read window.",
    "C10": "Held on the explored pairs and directories: outputs equalled model set operations and passed the C09 oracle; consolidation lost, invented or damaged no record and returned content-named existing files.",
    "C18": "Held on the explored exports and expiry scenarios: keyed chunk hashes equal an independent hmac, no plain chunk hash bytes remain, dedup answers through the manager equal the original's, records kept/dropped as requested; load / clean predicates judged with a 5 s margin.",
    "C08": "Fault enumeration over serialized xorbs: each mutant is judged by an independent decoder when accepted; panics are caught, allocations counted. Exhaustive over single-byte header/footer replacements and truncation points for a subset of bases, sampled otherwise.",
}

NOT_APPLICABLE = []
for _pid in ["C01", "C02", "C03", "C05", "C09", "C10", "C11", "C12", "C13", "C14", "C15", "C16", "C17", "C18", "C19", "C20"]:
    if _pid not in PROPS:
        NOT_APPLICABLE.append({"property_id": _pid, "reason": "check still under construction in this round (designed in DESIGN.md section 3; not claimed until its monitor runs)"})
