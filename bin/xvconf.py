"""Registry: which jobs decide which property, with tier sizes and coverage gates.
tuples are (quick, thorough)."""
from xvlib import Job

PURE = dict(pkg="xv_pure", binname="xv_pure")
MIRI = dict(pkg="xv_miri", binname="xv_miri", kind="miri", profile="miri")
ASAN = dict(pkg="xv_pure", binname="xv_pure", kind="asan", tiers=("thorough",))
ASAN_FULL = dict(pkg="xv_full", binname="xv_full", kind="asan", tiers=("thorough",))

PROPS = {}

PROPS["C04"] = dict(
    level="exploration",
    technique="reference-model monitor: real Chunker vs independent gear-hash rule over seeded streams x call partitions",
    rule=("case = (target 2^7..2^20, stream class, length near min/max/boundaries, feed partition); each (stream, partition) pair is one "
          "evaluation judged against ref_chunk_boundaries; non-trivial = >=2 chunks; distinct = (target, class, length bucket, partition kind, "
          "#chunks bucket, forced-max seen, min-edge seen)"),
    assumptions=["gearhash::DEFAULT_TABLE constants are taken as data", "blake3 is correct", "streams < 4 GiB"],
    jobs=[
        Job("chunker", engine="chunker", workers=(8, 16), cases=(400, 40000), time_s=(40, 600), args={"max-target-log": (18, 20)}, **PURE),
        Job("miri-chunker", engine="chunker", workers=(2, 16), cases=(4, 25), time_s=(120, 900), **MIRI),
    ],
    gates=dict(evaluations=(5000, 100000), distinct=(300, 1000),
               counters={"locality_cases": (100, 2000), "cases_with_forced_max_cut": (20, 500), "cases_with_chunk_at_minimum_edge": (10, 200), "miri_streams": (6, 300)}),
)

PROPS["C06"] = dict(
    level="exploration",
    technique="reference-model monitor: aggregate/leaf/range hashes vs independent blake3 construction + golden values + validator agreement",
    rule=("case = chunk list (1..20000 entries; classes random / cut-everywhere / cut-nowhere / repeated / extreme lengths) x salt class; "
          "judged against ref merkle construction, 5 mutation kinds, text-form round trips, streaming vs one-shot, both validators; "
          "non-trivial = list of >=2 entries; distinct = (class, log2 n, salt class, validated)"),
    assumptions=["blake3 is correct and collision resistant", "a chunk hash recurs only with the same length"],
    jobs=[
        Job("hash", engine="hash", workers=(8, 16), cases=(150, 6000), time_s=(40, 700), **PURE),
        Job("miri-hashes", engine="hashes", workers=(3, 16), cases=(3, 25), time_s=(120, 900), **MIRI),
    ],
    gates=dict(evaluations=(600, 20000), distinct=(40, 80), counters={"golden_checked": (9, 9), "mutations_checked": (2000, 50000), "validator_agreements": (100, 3000), "validator_agreements_on_compressed_xorbs": (30, 1000), "validator_agreements_legacy_footer": (100, 5000), "near_miss_hex_texts_rejected": (1000, 50000), "miri_lists": (6, 300)}),
)

PROPS["C07"] = dict(
    level="exploration",
    technique="round-trip monitor with independent xorb parser; three chunk decoders compared; bg4 exhaustive over lengths",
    rule=("case = chunk list (1..300 chunks, lengths 1..128KiB incl. every residue mod 4, 7 data classes) x scheme {auto,none,lz4,bg4lz4}; "
          "all O(n^2) chunk ranges for n<=40 else 62 sampled; every case judged by input bytes and by ref_parse_xorb_v1; "
          "distinct = (scheme, log2 n, class set, fallback seen, residue set); bg4 split/regroup variants for every length 0..4100"),
    assumptions=["lz4_flex frame decoder is shared with the reference parser"],
    jobs=[
        Job("xorb_rt", engine="xorb_rt", workers=(8, 16), cases=(60, 4000), time_s=(40, 700), extra_workers_arg=True,
            args={"max-chunks": (8192, 8192), "bg4-max-len": (4100, 20000)}, **PURE),
        Job("miri-bg4", engine="bg4", workers=(3, 16), cases=(1, 1), time_s=(120, 900), args={"span": (40, 70)}, **MIRI),
        Job("miri-xorb", engine="xorb", workers=(2, 16), cases=(1, 5), time_s=(150, 900), args={"mutants": (2, 6)}, **MIRI),
        Job("asan-xorb_rt", engine="xorb_rt", workers=(8, 8), cases=(300, 300), time_s=(300, 300), extra_workers_arg=True, args={"max-chunks": 8192, "bg4-max-len": 4100}, **ASAN),
    ],
    gates=dict(evaluations=(300, 10000), distinct=(100, 400),
               counters={"ranges_checked": (10000, 300000), "bg4_lengths_checked": (4101, 20001), "xorbs_with_incompressible_fallback": (50, 1000), "xorbs_with_more_than_1152_chunks": (10, 200), "auto_chunks_grouping_predicted_stored_raw": (50, 2000), "legacy_footer_xorbs_read_back": (150, 5000), "auto_chunks_grouping_predicted_stored_grouped": (50, 2000), "miri_bg4_lengths": (100, 1000), "miri_xorbs": (2, 60)}),
    exhaustive_note="bg4 split/regroup (all variants) for every input length 0..bg4-max-len",
)

PROPS["C08"] = dict(
    level="fault_enumeration",
    technique="mutation/fault enumeration on serialized xorbs; accept-soundness judged by independent decoder; catch_unwind + counting allocator",
    rule=("base = valid xorb (v1 footer / footer-less / v0 footer); faults = every single-byte replacement (4 values) in every chunk header, "
          "footer and info_length byte and truncation at every offset for 1 in 8 small bases (exhaustive), plus 14 random mutation kinds, "
          "v0-footer mutations and random byte strings; each mutant goes through both validators, CasObject::deserialize, "
          "deserialize_only_boundaries_section and deserialize_chunks; evaluation = one mutant; distinct = (mutation kind, scheme, #chunks, size class)"),
    assumptions=["allocation limit 256 MiB per call; inputs declaring > 2^28 boundary entries are not fed to deserialize_only_boundaries_section (harness memory safety valve)"],
    jobs=[
        Job("xorb_val", engine="xorb_val", workers=(8, 16), cases=(40, 3000), time_s=(40, 700), args={"mutants": (150, 300)}, **PURE),
        Job("miri-xorb", engine="xorb", workers=(2, 16), cases=(1, 5), time_s=(150, 900), args={"mutants": (3, 8)}, **MIRI),
        Job("asan-xorb_val", engine="xorb_val", workers=(8, 8), cases=(400, 400), time_s=(300, 300), args={"mutants": 200}, **ASAN),
    ],
    gates=dict(evaluations=(50000, 2000000), distinct=(200, 400),
               counters={"valid_forms_checked": (600, 20000), "bases_with_exhaustive_header_footer_flips": (20, 500), "mutants_accepted_v1": (100, 1000), "miri_mutants": (4, 300)}),
    exhaustive_note="single-byte replacements over all header/footer bytes and all truncation points, for every 8th small base",
)

PROPS["C05"] = dict(
    level="exploration",
    technique="truth-table monitor: every dedup answer of the in-memory index, a serialized shard and ShardFileManager histories is judged against the ground-truth xorb contents",
    rule=("case = shard content (1..25 xorbs, up to 2500 chunks each; prefix-collision groups up to 14, duplicate chunks, optional xorb of >65535 chunks) x layer "
          "{in-memory, serialized, manager history of add/flush/register-external/consolidate+reopen/keyed-export}; 300+ queries per case of 6 kinds; "
          "evaluation = one case; non-trivial = at least one hit judged; distinct = (layer, #xorbs bucket, key space, group size, dup, big, hit/partial/collision flags)"),
    assumptions=["a miss is always allowed (completeness of lookup is not claimed)", "queries are non-empty"],
    jobs=[
        Job("shard_dedup", engine="shard_dedup", workers=(8, 16), cases=(30, 3000), time_s=(40, 700), args={"queries": (300, 1500)}, **PURE),
        # the answers the file deduper actually acts on (shard lookups and the lookup against the xorb being built),
        # judged by resolving every file record against the stored xorbs and the file's own chunk list
        Job("sess-t1024-x16k-c8", engine="session", profile="smallchunk", pkg="xv_full", binname="xv_full",
            env={"HF_XET_TARGET_CHUNK_SIZE": 1024, "XV_EXPECT_TARGET": 1024, "HF_XET_MAX_XORB_BYTES": 16384, "HF_XET_MAX_XORB_CHUNKS": 8, "HF_XET_INGESTION_BLOCK_SIZE": 65536, "HF_XET_MDB_SHARD_MIN_TARGET_SIZE": 8192},
            workers=(4, 60), cases=(60, 400), time_s=(45, 800)),
        # FileDeduper alone against a mock index that answers with prefixes of registered xorbs (tiny alphabets, 2-chunk xorbs)
        Job("deduper-xc2", engine="deduper", profile="smallchunk", env={"HF_XET_MAX_XORB_CHUNKS": 2}, workers=(2, 8), cases=(1500, 40000), time_s=(40, 600), **PURE),
        # answers of one manager while other tasks add records and flush
        Job("mgrconc-512", engine="shard_mgr_conc", profile="prodlike", env={"HF_XET_MDB_SHARD_MIN_TARGET_SIZE": 512}, workers=(3, 8), cases=(150, 4000), time_s=(40, 600), **PURE),
    ],
    gates=dict(evaluations=(200, 5000), distinct=(40, 100),
               counters={"hits": (5000, 500000), "partial_hits": (1000, 100000), "collision_resolved_hits": (1000, 100000), "manager_op_keyed-export": (5, 100), "manager_op_consolidate-reopen": (5, 100), "session_deduped_chunks_resolved": (2000, 100000), "mgr_conc_query_hits_judged": (1000, 50000)}),
)

PROPS["C09"] = dict(
    level="exploration",
    technique="reference-model monitor: serialized shard vs the record maps it was built from, through seekable / streaming / minimal readers; search_on_sorted_u64s vs exact table",
    rule=("case = model (0..thousands of file / xorb records, key spaces uniform / clustered / extremes / prefix-collision groups <=7, all flag combinations, empty records) "
          "serialized and read back: every present key (or 400 sampled) and same-prefix absent keys looked up, all scans, footer totals, size accounting, 3 reader families; "
          "plus sorted-u64 tables of 0..50000 keys where every present key, its neighbours and extremes are searched; non-trivial = >=2 records / keys; "
          "distinct = (size buckets, key spaces, flags) resp. (table size bucket, class)"),
    assumptions=["shards < 4 GiB", "size clause judged on shards built from distinct records"],
    jobs=[
        Job("shard_fmt", engine="shard_fmt", workers=(8, 12), cases=(40, 2500), time_s=(40, 700), args={"scale": (12, 60)}, **PURE),
        Job("shard_search", engine="shard_search", workers=(4, 4), cases=(60, 6000), time_s=(40, 700), args={"max-table": (50000, 200000)}, **PURE),
        Job("asan-shard_fmt", engine="shard_fmt", workers=(8, 8), cases=(150, 150), time_s=(300, 300), args={"scale": 12}, **ASAN),
    ],
    gates=dict(evaluations=(400, 20000), distinct=(150, 400),
               counters={"lookups": (20000, 1000000), "search_queries": (500000, 20000000), "tables_beyond_read_window": (50, 2000)}),
)

PROPS["C10"] = dict(
    level="exploration",
    technique="reference-model monitor: union/difference (in-memory, buffer and file forms) vs set operations on record maps, outputs re-judged by the C09 oracle; consolidation judged by before/after directory scans",
    rule=("pairs drawn from a universe of full records with per-shard flag subsets (relations identical / empty / disjoint / overlapping; all 4x4 flag pairs; prefix collisions); "
          "consolidation over directories of 0..40 shards (duplicates, empty shards, leftovers) with thresholds from 'nothing merges' to 'everything merges'; "
          "non-trivial = >=2 records resp. >=2 shards; distinct = (relation, common-file bucket, flag-pair set, sizes) resp. (before, after, threshold class)"),
    assumptions=["a file present in both inputs has identical segments / verification / metadata where present"],
    jobs=[
        Job("shard_setops", engine="shard_setops", workers=(8, 12), cases=(250, 20000), time_s=(40, 700), **PURE),
        Job("shard_consolidate", engine="shard_consolidate", workers=(4, 4), cases=(50, 5000), time_s=(40, 700), **PURE),
    ],
    gates=dict(evaluations=(1500, 50000), distinct=(200, 1000),
               counters={"setop_pairs": (1500, 50000), "consolidations": (150, 5000), "consolidations_that_merged": (50, 1000), "consolidation_inputs_in_reexported_form": (200, 10000), "flagpair_1_2": (20, 200), "flagpair_2_1": (20, 200)}),
)

PROPS["C18"] = dict(
    level="exploration",
    technique="monitor over keyed exports (independent hmac, byte search for plain hashes, manager answers vs original) and crafted-footer expiry predicates",
    rule=("case = shard x key (incl. zero key) x 8 include-flag combinations: exported bytes judged for keyed chunk hashes, absence of plain hashes, tables present/absent, file records, "
          "expiry stamp, and 120 unkeyed manager queries compared with the original shard's answers (exact equality when chunk hashes are unique); "
          "expiry cases = directories of shards with crafted (creation, expiry) footers x grace buffer, judged with a 5 s margin around now; distinct = flag/zero/unique/size resp. buffer/outcome classes"),
    assumptions=["secrecy of keyed blake3 itself is not checked", "wall clock only enters through a 5 s margin"],
    jobs=[
        Job("shard_keyed", engine="shard_keyed", workers=(8, 12), cases=(40, 3000), time_s=(40, 700), **PURE),
        Job("shard_expiry", engine="shard_expiry", workers=(4, 4), cases=(100, 10000), time_s=(40, 700), **PURE),
    ],
    gates=dict(evaluations=(500, 20000), distinct=(40, 80),
               counters={"keyed_exports": (200, 8000), "keyed_answers_identical": (8000, 400000), "zero_key_exports": (20, 500), "expired_shards_checked": (300, 10000), "valid_shards_checked": (300, 10000), "shards_deleted_by_clean": (100, 5000),
                         "flags_000": (8, 100), "flags_111": (8, 100), "keyed_mixture_directories": (60, 2000), "keyed_collision_directories": (20, 800), "keyed_collision_hits": (1000, 40000), "keyed_mixture_hits_identical": (2000, 100000)}),
)

# ---------------------------------------------------------------------------------------------
# session-level properties: one process per configuration (limits are process-global lazy statics)

FULL = dict(pkg="xv_full", binname="xv_full")


def senv(target, xb, xc, ib=None, shard_min=None, nranges=None):
    e = {"HF_XET_TARGET_CHUNK_SIZE": target, "XV_EXPECT_TARGET": target, "HF_XET_MAX_XORB_BYTES": xb, "HF_XET_MAX_XORB_CHUNKS": xc}
    if ib is not None:
        e["HF_XET_INGESTION_BLOCK_SIZE"] = ib
    if shard_min is not None:
        e["HF_XET_MDB_SHARD_MIN_TARGET_SIZE"] = shard_min
    if nranges is not None:
        e["HF_XET_NRANGES_IN_STREAMING_FRAGMENTATION_ESTIMATOR"] = nranges
    return e


def session_jobs(scale=1.0):
    """The configuration matrix of the session engine.  workers/cases are (quick, thorough).
    Thorough runs use many short worker processes: LocalClient's LMDB environments are not all released within a process and after
    ~2500 sessions opening one fails with EAGAIN (pthread key table), which would turn later sessions inconclusive."""
    def c(q, t):
        return (max(1, int(q * scale)), max(1, int(t * scale)))
    return [
        Job("sess-t1024-x16k-c8", engine="session", profile="smallchunk", env=senv(1024, 16384, 8, ib=65536, shard_min=8192),
            workers=(3, 45), cases=c(60, 400), time_s=(45, 800), **FULL),
        # many small shards per session and a chunk-index cap of 6000 (clause (b) is judged while the history has stored < 3000 distinct chunks)
        Job("sess-t256-x1k-c64", engine="session", profile="smallchunk", env=dict(senv(256, 1024, 64, ib=512, shard_min=1024), HF_XET_CHUNK_INDEX_TABLE_MAX_SIZE=6000),
            workers=(2, 30), cases=c(60, 400), time_s=(45, 800), args={"max-file-bytes": 20000}, **FULL),
        Job("sess-t4096-x256k-c2", engine="session", profile="smallchunk", env=senv(4096, 262144, 2),
            workers=(2, 20), cases=c(40, 400), time_s=(45, 800), args={"max-file-bytes": 200000}, **FULL),
        Job("sess-defrag-t1024-n16", engine="session", profile="smallchunk", env=senv(1024, 65536, 64, nranges=16),
            workers=(3, 20), cases=c(25, 375), time_s=(45, 800), args={"defrag-focus": True, "max-file-bytes": 400000}, **FULL),
        Job("sess-repeat-t1024-fragoff", engine="session", profile="smallchunk", env=senv(1024, 16384, 8, shard_min=4096, nranges=100000),
            workers=(3, 45), cases=c(60, 400), time_s=(45, 800), args={"repeat-bias": True, "no-global": True}, **FULL),
        # many concurrent small multi-xorb files per session, a shard cut every few records: races on the shared session state
        Job("sess-storm-t256-x1k", engine="session", profile="smallchunk", env=senv(256, 1024, 64, ib=512, shard_min=1024),
            workers=(3, 30), cases=c(40, 400), time_s=(45, 800), args={"storm": True, "max-files": 24, "max-file-bytes": 6000, "max-sessions": 2, "no-global": True}, **FULL),
        Job("sess-prod-x1m-c16", engine="session", profile="prodlike", env=senv(65536, 1048576, 16),
            workers=(3, 12), cases=c(6, 150), time_s=(45, 800), args={"max-file-bytes": 3000000, "max-files": 4, "max-sessions": 3}, **FULL),
        # full default limits (64 KiB chunks, 64 MiB / 8192-chunk xorbs): a few large files, thorough tier only
        Job("sess-prod-defaults-big", engine="session", profile="prodlike", env=senv(65536, 64 * 1024 * 1024, 8192),
            workers=(2, 2), cases=c(2, 3), time_s=(45, 900), args={"max-file-bytes": 140000000, "min-file-bytes": 60000000, "max-files": 2, "max-sessions": 2, "no-interleave": True},
            tiers=("thorough",), **FULL),
    ]


def validity_jobs():
    """C11 only: cached shards valid for 600 s (instead of three weeks); later sessions come through their own manager instance after a 2.1 s pause."""
    return [
        Job("sess-validity600-t1024", engine="session", profile="smallchunk", env=dict(senv(1024, 16384, 8, ib=65536, shard_min=8192), HF_XET_MDB_SHARD_LOCAL_CACHE_EXPIRATION_SECS=600),
            workers=(2, 8), cases=(14, 120), time_s=(60, 800), args={"alias-bias": True, "alias-sleep-ms": 2100, "no-global": True, "max-sessions": 3}, **FULL),
    ]


def mgrconc_jobs():
    """One ShardFileManager under concurrent adds / flushes / queries (conservation of records, truthful answers)."""
    return [
        Job("mgrconc-512", engine="shard_mgr_conc", profile="prodlike", env={"HF_XET_MDB_SHARD_MIN_TARGET_SIZE": 512, "HF_XET_CHUNK_INDEX_TABLE_MAX_SIZE": 6000}, workers=(3, 8), cases=(150, 4000), time_s=(40, 600), **PURE),
        Job("mgrconc-4k", engine="shard_mgr_conc", profile="prodlike", env={"HF_XET_MDB_SHARD_MIN_TARGET_SIZE": 4096}, workers=(2, 8), cases=(150, 4000), time_s=(40, 600), **PURE),
    ]


MGRCONC_RULE = ("In addition one ShardFileManager (shard target 512 B / 4 KiB, so adds cut shards constantly) is driven by 2..8 concurrent tasks on 1/2/4/8-worker runtimes: "
                "adds of 2..40 xorb records and 0..30 file records, explicit flushes, dedup queries by other tasks; after a final flush every record whose add returned Ok must be "
                "in the directory's shards (parsed independently of the manager), unchanged, and be found by the live manager; answers given meanwhile must be truthful. ")


def deduper_jobs():
    """FileDeduper alone against a mock dedup index: short chunk sequences over tiny alphabets under 2/3/8-chunk xorb limits."""
    return [
        Job("deduper-xc2", engine="deduper", profile="smallchunk", env={"HF_XET_MAX_XORB_CHUNKS": 2}, workers=(2, 8), cases=(1500, 40000), time_s=(40, 600), **PURE),
        Job("deduper-xc3", engine="deduper", profile="prodlike", env={"HF_XET_MAX_XORB_CHUNKS": 3}, workers=(2, 8), cases=(1500, 40000), time_s=(40, 600), **PURE),
        Job("deduper-xc8", engine="deduper", profile="prodlike", env={"HF_XET_MAX_XORB_CHUNKS": 8, "HF_XET_MAX_XORB_BYTES": 120}, workers=(1, 8), cases=(1500, 40000), time_s=(40, 600), **PURE),
    ]


DEDUPER_RULE = ("In addition FileDeduper alone is driven against a mock dedup index (model-based): sequences of 0..24 chunks over an alphabet of 1..6 distinct chunks, "
                "optional pre-registered xorbs, random block partitions, xorb limits of 2 / 3 / 8 chunks or 120 bytes; the record is resolved against the registered xorbs and the leftover aggregator. ")


SESSION_ASSUMPTIONS = [
    "store = the repository's LocalClient behind a recording wrapper (remote HTTP upload path not driven)",
    "interleavings of concurrently cleaned files are sampled (1/2/4/16 worker runtimes, seeded store delays, a 'storm' configuration of 12..24 concurrent files with a shard cut every few records), not enumerated",
    "reference chunker / merkle / sha256 are independent implementations; shards handed to the store are parsed with the repository's shard reader (judged separately by C09)",
]

SESSION_RULE = ("case = history of 1..4 upload sessions against one store (1..6 files per session built from recipes: fresh / const / periodic / low-entropy / "
                "copies of earlier files at arbitrary offsets / self-copies / interleaved short dedup runs; sizes biased to 0, 1, chunk and xorb limits +-1, multi-xorb; "
                "8 feed partitions; files cleaned sequentially or concurrently on 1/2/4/16-worker runtimes; seeded put / shard-upload delays; sessions with a fresh shard cache "
                "exercise global dedup) under 7 configurations (one process each; one with a lowered chunk-index cap; C11 adds one with cached shards valid for 600 s and later sessions started after a pause through their own manager instance); every session whose calls all returned Ok is judged by all monitors. ")

PROPS["C01"] = dict(
    level="exploration",
    technique="end-to-end history monitor: bytes fed vs bytes downloaded (whole file + ranges) through a new FileDownloader after every successful session",
    rule=SESSION_RULE + "evaluation = one successful session; every file is downloaded whole and in ~12 ranges (first/last byte, around segment boundaries, random, empty); "
         "non-trivial = session with dedup, >=2 xorbs or a xorb shared by files; distinct = (config, session index, #files, workers, concurrency, kinds observed)",
    assumptions=SESSION_ASSUMPTIONS + ["byte ranges stay within [0, len]"],
    jobs=session_jobs(),
    gates=dict(evaluations=(400, 20000), distinct=(150, 1000),
               counters={"files_round_tripped": (800, 40000), "ranges_downloaded": (8000, 400000), "sessions_with_dedup": (100, 5000), "sessions_with_global-dedup": (5, 200),
                         "sessions_with_defrag-withheld": (20, 500), "sessions_with_cross-session-ref": (50, 2000), "sessions_with_shared-xorb": (100, 2000)}),
)

PROPS["C02"] = dict(
    level="exploration",
    technique="store/shard consistency monitor: every stored xorb through an independent parser + the code's validator; every file record resolved against validated xorbs and recomputed hashes",
    rule=SESSION_RULE + DEDUPER_RULE + "evaluation = one file of a successful session (its record located in the shards handed to upload_shard and resolved chunk by chunk); "
         "non-trivial = record with >=2 segments or >=2 xorbs; distinct = (#segments, #xorbs, #chunks buckets, references an earlier session's xorb)",
    assumptions=SESSION_ASSUMPTIONS,
    jobs=session_jobs() + deduper_jobs(),
    gates=dict(evaluations=(800, 40000), distinct=(40, 150), counters={"stored_xorbs_validated": (2000, 100000)}),
)

PROPS["C03"] = dict(
    level="exploration",
    technique="reference-model monitor: pointer (hash, size) of every cleaned file vs ref chunker + ref merkle + salt, across feed partitions, store states and concurrency",
    rule=SESSION_RULE + "evaluation = one cleaned file; its pointer must equal the absolute reference, so equal bytes give equal pointers however they were fed, "
         "whatever was deduplicated and whichever process cleaned them; non-trivial = >=2 chunks; distinct = (partition kind, #chunks bucket, workers, concurrency, deduped)",
    assumptions=SESSION_ASSUMPTIONS + ["'different salts give different hashes' is judged through the reference (zero and random salts are used; an empty file has the zero hash under every salt)"],
    jobs=session_jobs(),
    gates=dict(evaluations=(800, 40000), distinct=(150, 600), counters={"files_with_dedup": (200, 10000)}),
)

PROPS["C11"] = dict(
    level="exploration",
    technique="history monitor over the store-client log: every xorb put by a session must be in that session's uploaded shards; no chunk stored by an earlier finalized session is put again",
    rule=SESSION_RULE + MGRCONC_RULE + "evaluation = one successful session; clause (a) structural per put; clause (b) per session sharing the shard cache with earlier sessions "
         "(violation only if fragmentation prevention is off or reported no withheld chunk); one configuration runs with fragmentation prevention disabled and re-upload-biased recipes; "
         "non-trivial/distinct as C01",
    assumptions=SESSION_ASSUMPTIONS + ["sessions that deliberately use a fresh shard cache (global-dedup variant) are exempt from clause (b)"],
    jobs=session_jobs() + validity_jobs() + mgrconc_jobs(),
    gates=dict(evaluations=(400, 20000), distinct=(150, 1000), counters={"new_xorbs_found_in_shards": (2000, 100000), "sessions_checked_for_reupload": (300, 15000),
                                                                                     "mgr_conc_records_conserved": (5000, 200000), "mgr_conc_shards_cut": (2000, 80000)}),
)

PROPS["C14"] = dict(
    level="exploration",
    technique="conservation monitor: returned metrics vs bytes fed, sums over files and the store-client log (put return values, shard bytes)",
    rule=SESSION_RULE + DEDUPER_RULE + "evaluation = one file (conservation, pointer size) plus session-level sums; a dedicated configuration (16-range estimator, interleave recipes of up to 300 short dedup runs) "
         "drives fragmentation prevention; non-trivial = >=2 chunks; distinct = (deduped, new, withheld, global, #chunks bucket)",
    assumptions=SESSION_ASSUMPTIONS + ["Prometheus counters are not read"],
    jobs=session_jobs() + deduper_jobs(),
    gates=dict(evaluations=(800, 40000), distinct=(15, 40), counters={"files_with_fragmentation_prevention": (30, 1000), "sessions_with_xorb_uploads": (300, 15000), "sessions_checked": (400, 20000), "fully_dedupable_files_with_withheld_chunks": (30, 1000)}),
)

PROPS["C15"] = dict(
    level="exploration",
    technique="limit monitor on every put / upload_shard argument recorded at the client boundary, against the limits the harness put in the environment",
    rule=SESSION_RULE + DEDUPER_RULE + "evaluation = one successful session (all its puts and shards checked); configurations are chunk-count-limited (2, 8, 64 chunks) and byte-limited (4x, 16x, 64x target); "
         "non-trivial/distinct as C01",
    assumptions=SESSION_ASSUMPTIONS,
    jobs=session_jobs() + deduper_jobs(),
    gates=dict(evaluations=(400, 20000), distinct=(150, 1000), counters={"puts_checked": (2000, 100000), "puts_at_chunk_limit": (500, 20000), "puts_within_one_chunk_of_byte_limit": (20, 1000)}),
)

PROPS["C16"] = dict(
    level="fault_enumeration",
    technique="fault enumeration at the store-client boundary: each put and each upload_shard of a session fails in turn (plus random multi-fault sets); ordering judged on the event log; I/O-error injection (strace) underneath LocalClient::put",
    rule=("for each generated session: a fault-free run counts its store calls, then one run per call with that call failing (every put ordinal, every upload_shard ordinal; "
          "exhaustive when <= max-points calls, sampled otherwise) and random 2-4-fault sets, with seeded delays on 1/4/16-worker runtimes and two caller policies "
          "(abandon the session / give up on the failing file and finalize); evaluation = one faulty run in which the fault was actually injected; "
          "violation = every call returned Ok although a store call failed, or a shard handed over before / without a successful put of a referenced xorb; "
          "the ordering clause is also judged on every fault-free session of the session engine; "
          "in addition I/O errors are injected underneath the local store client (strace: the k-th write fails with ENOSPC, the k-th fsync / rename with EIO, one per run, every such call of a put in turn): "
          "a put that returns Ok - at once or when the caller retries after the error - must leave the xorb stored complete; distinct = (config, op, ordinal bucket, policy, concurrency, workers, where the error surfaced)"),
    assumptions=SESSION_ASSUMPTIONS + ["process kills during local writes are C19's subject; I/O *errors* underneath the local store client are injected here, for LocalClient::put only"],
    jobs=[
        Job("faults-t1024", engine="faults", profile="smallchunk", env=senv(1024, 16384, 8, ib=65536, shard_min=8192),
            workers=(5, 6), cases=(8, 500), time_s=(45, 800), args={"max-files": 8, "max-file-bytes": 300000, "max-points": (30, 60)}, **FULL),
        Job("faults-t256", engine="faults", profile="smallchunk", env=senv(256, 1024, 64, ib=512, shard_min=1024),
            workers=(5, 6), cases=(8, 500), time_s=(45, 800), args={"max-files": 6, "max-file-bytes": 20000, "max-points": (30, 60)}, **FULL),
        Job("sess-t1024-x16k-c8", engine="session", profile="smallchunk", env=senv(1024, 16384, 8, ib=65536, shard_min=8192),
            workers=(4, 30), cases=(40, 400), time_s=(45, 800), **FULL),
        # sessions dominated by unchanged re-uploads (fully deduplicated files and sessions): the "success => reconstructible" clause without faults
        Job("sess-repeat-t1024-fragoff", engine="session", profile="smallchunk", env=senv(1024, 16384, 8, shard_min=4096, nranges=100000),
            workers=(3, 30), cases=(60, 400), time_s=(45, 800), args={"repeat-bias": True, "no-global": True}, **FULL),
        # many concurrent files, a shard cut every few records: records lost by a race on the shared session state make a successful session unreconstructible
        Job("sess-storm-t256-x1k", engine="session", profile="smallchunk", env=senv(256, 1024, 64, ib=512, shard_min=1024),
            workers=(3, 30), cases=(40, 400), time_s=(45, 800), args={"storm": True, "max-files": 24, "max-file-bytes": 6000, "max-sessions": 2, "no-global": True}, **FULL),
    ],
    gates=dict(evaluations=(800, 15000), distinct=(100, 400),
               counters={"fault_runs_injected": (600, 8000), "sessions_with_every_single_fault_point_enumerated": (40, 300), "shard_uploads_order_checked": (150, 3000),
                         "error_surfaced_at_add_data": (10, 300), "error_surfaced_at_finalize": (100, 3000), "io_error_points_localput": (150, 2000), "dry_run_sessions_before_a_real_one": (30, 1000)}),
    exhaustive_note="single-fault points: every put and upload_shard ordinal of a session when the session has <= max-points store calls",
    # I/O errors underneath the local store client (strace error injection, one failing write / fsync / rename per run)
    extra_crash=dict(crash_modes=("ioerr",), crash_ops=("localput",), seeds=(6, 40), max_points=(60, 400)),
)

PROPS["C12"] = dict(
    level="exploration",
    technique="truth monitor on every cache hit: sequential histories with re-opens, 17 kinds of on-disk damage applied while closed, and concurrent schedules steered through hook points",
    rule=("(1) sequential histories of put/get/re-open/delete-while-open over 1..6 keys x 1..40 chunks with overlapping, nested, adjacent and identical ranges and capacities from one item to all; "
          "(2) damage cases: one damage kind per case (single bursts <= 32 bits in header / data, truncation, extension, deletion, renames, swaps, moves, junk and planted names at every level), then re-open and query "
          "everything; (3) 2..8 threads under random-walk / PCT steering (one thread runs between hook points; the grant sequence is the witness) or perturbation; every Ok(Some) is judged against the truth slice; "
          "distinct = (phase, shape) resp. (damage kind) resp. (mode, scenario, threads, grant-sequence hash)"),
    assumptions=["corruption stays within a single burst of <= 32 bits per file (what CRC-32 guarantees to detect)", "re-open is performed in the same process on a fresh DiskCache (the type has no process-global state)",
                 "the code's own rand::random eviction choice is not controlled"],
    jobs=[
        Job("cache_seq", engine="cache_seq", workers=(4, 4), cases=(250, 25000), time_s=(40, 700), **FULL),
        Job("cache_fault", engine="cache_fault", workers=(4, 4), cases=(340, 34000), time_s=(40, 700), **FULL),
        Job("cache_conc", engine="cache_conc", workers=(8, 8), cases=(150, 15000), time_s=(40, 700), **FULL),
        # every interleaving (at hook-point granularity) of small scenarios, among them: get of a damaged, not yet verified entry vs put of a covered sub-range
        Job("cache_enum", engine="cache_enum", workers=(8, 16), cases=(4, 30), time_s=(60, 800), args={"max-schedules": (4000, 60000), "p3": (0, 3)}, **FULL),
        Job("asan-cache_fault", engine="cache_fault", workers=(4, 4), cases=(1700, 1700), time_s=(300, 300), **ASAN_FULL),
        Job("asan-cache_seq", engine="cache_seq", workers=(4, 4), cases=(600, 600), time_s=(300, 300), **ASAN_FULL),
    ],
    gates=dict(evaluations=(2500, 200000), distinct=(800, 20000),
               counters={"seq_hits_judged": (50000, 2000000), "seq_reopens": (1000, 50000), "fault_cases": (1000, 100000), "fault_hits_judged": (30000, 2000000), "concurrent_hits_judged": (500, 50000),
                         "hook_points_crossed": (10000, 1000000), "damage_short-key-dir": (50, 5000), "damage_burst-data": (50, 5000), "damage_swap-two-items": (50, 5000), "damage_rename-range-end": (50, 5000), "damage_burst-all-small-reopen": (50, 5000)}),
)

PROPS["C13"] = dict(
    level="exploration",
    technique="invariant hook at quiescent points: verif_snapshot (under the cache's own lock) vs public counters vs directory walk, under steered / perturbed concurrent schedules and sequential histories",
    rule=("at every step of sequential histories and after all threads of a concurrent schedule are joined: num_items == tracked entries, total_bytes == sum of tracked lengths, every cache file on disk belongs to a tracked entry, "
          "after reading every tracked entry back totals == on-disk totals, total_bytes <= capacity after any put returned (checked in every thread), and again after re-opening with the same capacity; "
          "schedules are weighted to simultaneous identical puts and overlapping puts racing evictions with tiny capacities; distinct = (mode, scenario, threads, grant-sequence hash)"),
    assumptions=["no single item is larger than the capacity", "interleavings inside std / file-system calls are not steered (points sit between them)", "random eviction victim not controlled"],
    exhaustive_note="cache_enum: every grant sequence (at the granularity of the hook points) of the small scenarios counted in scenarios_enumerated_exhaustively (2 threads: identical puts, nested puts, put vs put+get, puts racing an eviction)",
    jobs=[
        Job("cache_conc", engine="cache_conc", workers=(10, 12), cases=(200, 20000), time_s=(40, 700), **FULL),
        Job("cache_seq", engine="cache_seq", workers=(4, 4), cases=(250, 25000), time_s=(40, 700), **FULL),
        # systematic (depth-first) enumeration of all grant sequences of small scenarios
        Job("cache_enum", engine="cache_enum", workers=(6, 16), cases=(4, 30), time_s=(60, 800), args={"max-schedules": (4000, 60000), "p3": (0, 3)}, **FULL),
    ],
    gates=dict(evaluations=(2500, 200000), distinct=(1500, 50000),
               counters={"scenario_identical-puts": (500, 50000), "scenario_overlap-evict": (200, 20000), "steered_grants": (15000, 1000000), "hook_points_crossed": (20000, 1000000),
                         "seq_histories_with_eviction": (200, 20000), "enumerated_schedules": (2000, 200000), "scenarios_enumerated_exhaustively": (10, 40)}),
)

PROPS["C20"] = dict(
    level="exploration",
    technique="history checker: callers and supplied tasks recorded with one atomic sequence counter at the client boundary; linear-time check with unique task ids; bounded-progress probe for lost wake-ups; end-to-end byte monitor at the use site (RemoteClient range downloads of one xorb behind one url)",
    rule=("case = short history: 1..4 keys, 2..64 callers with arrival offsets in yields, tasks that succeed / fail / panic after 0..3 yields, on current_thread, multi-thread (2/4/16) runtimes and the repository ThreadPool, "
          "half of them with seeded spins / yields at the singleflight hook points; checker: task ran at most once, owner flag <-> own task ran, one owner per flight, result names a task of the same key with the matching outcome "
          "(value / error text / panic notification), no caller joins a flight whose owning call had returned before its call started, no internal-BUG variant, no waiter left pending after the scheduler "
          "demonstrably ran everything runnable three times; non-trivial = at least one joiner; distinct = (runtime, perturbed, keys, callers / flights / joiners buckets, outcome mix) In addition single flights of 65535 / 65536 / 65537 / 131072 callers (the width of a 16-bit waiter counter) are held at a gate until every caller has registered, then released: one task execution, every caller answered. Use site (anchor cas_client/src/remote_client.rs): RemoteClient reconstructions of plans whose fetch ranges of a xorb all share one url (same and different starting bytes, overlapping ranges, both writers, all cache modes, permuted completion order) - 'calls with different keys do not affect each other' is judged by the reconstructed bytes: a download joined to a different download's flight returns the wrong bytes or an error on a valid plan."),
    assumptions=["cancellation of a calling future is not exercised", "a wall-clock watchdog firing without scheduler evidence is inconclusive, never a violation",
                 "yields at hook points are only injected at existing suspension points; elsewhere the hooks spin the worker thread"],
    jobs=[
        Job("sflight", engine="sflight", workers=(8, 16), cases=(3000, 300000), time_s=(40, 800), **FULL),
        # flights of 65535 / 65536 / 65537 / 131072 callers on one key (the width of a 16-bit waiter counter), current-thread and 4-worker runtimes
        Job("sflight-big", engine="sflight", workers=(1, 1), cases=(1, 1), time_s=(300, 300), args={"big-flight": True, "all-sizes": True}, **FULL),
        # the use site named in the anchors (cas_client/src/remote_client.rs): reconstruction plans whose fetch ranges of one xorb all sit behind ONE url, so that
        # distinct downloads are kept apart by the range-download singleflight key alone; a caller handed another download's bytes fails the byte comparison
        Job("sflight-usesite", engine="recon", workers=(8, 16), cases=(10, 1200), time_s=(40, 600), args={"shared-url": True}, **FULL),
    ],
    gates=dict(evaluations=(20000, 2000000), distinct=(3000, 6000),
               counters={"joiners": (100000, 10000000), "flights": (50000, 5000000), "histories_with_panicking_task": (5000, 500000), "histories_current": (2000, 200000), "histories_threadpool": (2000, 200000),
                         "hook_points_crossed": (300000, 30000000), "big_flights_all_callers_answered": (8, 8),
                         "plans_with_one_url_per_xorb": (60, 6000), "reconstructions_compared": (700, 70000)}),
)

PROPS["C17"] = dict(
    level="exploration",
    technique="end-to-end monitor: RemoteClient reconstruction (sequential and parallel writers, cache off / cold / warm / tiny) against an in-process HTTP range server serving xorbs the harness serialized; output compared with the known concatenation",
    rule=("case = 1..6 xorbs of unique random chunks x plan of 1..60 terms (repeated xorbs, fetch ranges equal to or wider than terms, several fetch ranges per xorb behind distinct urls or one url per xorb, shuffled) "
          "x ~8 byte ranges (whole, single byte, random, starting/ending at and next to term boundaries) x {seq, par} writer x cache {off, large, small with evictions} x {cold, warm}; seeded per-request delays permute "
          "completion order; with the cache off each plan is also reconstructed onto a file under a file-size limit below its length (the crossing write is cut short by the kernel): only an error is acceptable; "
          "one plan larger than 4 GiB (257+ repeated 16 MiB terms, output /dev/null) checks the reported length of both writers; evaluation = one plan (all its runs); non-trivial = >=2 terms; distinct = (terms / fetch-range buckets, xorbs, url class, cache mode, repeated, wider)"),
    assumptions=["plain HTTP on loopback; real CAS server quirks and TLS are not covered", "the reconstruction API answer for a byte range (covering terms + offset into the first) is computed by the harness"],
    jobs=[
        Job("recon", engine="recon", workers=(16, 16), cases=(22, 2500), time_s=(45, 800), **FULL),
        # one plan larger than 4 GiB (257+ whole-xorb terms of 16 MiB, disk cache on, output /dev/null): reported length, both writers
        Job("recon-huge", engine="recon", workers=(1, 3), cases=(1, 1), time_s=(120, 300), args={"huge-plan": True}, **FULL),
    ],
    gates=dict(evaluations=(300, 20000), distinct=(120, 500),
               counters={"reconstructions_compared": (5000, 500000), "plans_with_one_url_per_xorb": (30, 3000), "plans_with_repeated_xorbs": (150, 15000), "plans_with_fetch_ranges_wider_than_terms": (150, 15000),
                         "cache_small": (60, 6000), "cache_large": (60, 6000), "cache_off": (60, 6000), "warm_runs_served_without_network": (1000, 100000), "http_requests_served": (8000, 800000),
                         "short_write_runs_rejected": (60, 6000), "plans_larger_than_4gib_length_correct": (2, 6)}),
)

PROPS["C19"] = dict(
    level="fault_enumeration",
    custom="crash",
    technique="crash-point enumeration: the victim process is killed by strace (SIGKILL injected at the k-th file-system effect system call, which is not executed) and the directory is judged by a checker in a new process",
    rule=("scenario = (operation in {shard flush, consolidation, LocalClient::put, DiskCache::put with eviction, DiskCache::initialize over a dirty directory}) x (prior history in {empty, populated, leftovers of an earlier crash; for the cache put also: sub-ranges of the key being put already cached, capacity not binding, and 'tight': capacity = prepared bytes + 10 so that the put must evict; for consolidation also: shards whose records are subsets of another's, so the merged shard's name already exists}) "
          "x seed x payload size; pass 1 traces an uninjected run and lists the effect calls (creating/truncating openat, write, pwrite, rename*, unlink*, mkdir*, rmdir, ftruncate, fsync, chmod/chown, link) issued by the operating thread "
          "between two marker calls; pass 2 re-runs the victim from a fresh copy of the prepared directory once per listed call with SIGKILL injected at that call; the checker requires every file under a final name "
          "(<hash>.mdb, default.<hash>, cache item name) to be complete and consistent with its name, every record retrievable before the operation to be retrievable (shard records, stored xorbs; cached chunks where no eviction is possible), and re-open to succeed; "
          "then the restarted process goes on - a complete consolidation over the directory the crash left (shard operations), the same put again (cache) - and the records must survive that too; "
          "evaluation = one crash point that was actually cut and judged; distinct = (operation, history, size, cut system call, kind of path)"),
    assumptions=["process-crash model: completed system calls persist, no torn page cache (as the property states)", "strace counts when=k per thread; the victims keep the operation's effects on one thread",
                 "the code's random choices (temp names, eviction victim) change the concrete call list from run to run; each injected run is judged on its own trace"],
    jobs=[Job("crash", engine="crash", workers=(1, 1), cases=(1, 1), **FULL)],
    seeds=(4, 40),
    max_points=(40, 400),
    gates=dict(evaluations=(400, 5000), distinct=(60, 100),
               counters={"crash_points_flush": (60, 800), "crash_points_consolidate": (40, 500), "crash_points_localput": (100, 1500), "crash_points_cacheput": (60, 800), "crash_points_cacheinit": (12, 150),
                         "scenarios_with_every_crash_point": (40, 300), "cut_rename": (25, 300), "cut_openat": (40, 500), "cut_write": (150, 2000), "cut_unlink": (25, 300), "restart_consolidations_checked": (100, 1500), "pre_readable_cache_chunks_kept": (200, 3000)}),
    exhaustive_note="every effect call of the operating thread between the markers, per scenario (bounded by max_points per scenario)",
)

LEVEL_TEXT = {
    "C01": "Held on the explored histories: after every successful session each file was downloaded by a fresh downloader, whole and in ranges, and compared byte for byte with what was fed. Sampling over contents, partitions, limits and schedules; hostile generators (limits +-1, interleaved dedup, cross-session and cross-file references, global dedup).",
    "C02": "Held on the explored sessions: every stored xorb decoded under an independent parser with name == recomputed hash; every file record resolved to existing xorbs, in-range chunks and exact byte sums; file hash, per-segment verification hashes and SHA-256 equalled independent recomputation from the original bytes.",
    "C03": "Held on the explored files: pointer hash and size equalled an absolute reference (independent chunker + merkle + salt), hence are a function of bytes and salt only, across 8 feed partitions, prior store states, dedup outcomes and concurrent cleaning.",
    "C11": "Held on the explored histories: each xorb a session stored was described in that session's shards, and no later session sharing the shard cache uploaded a chunk an earlier finalized session had stored (fragmentation prevention accounted for).",
    "C12": "Held on the explored histories, damage cases and schedules: every reported hit equalled the truth slice (data, offsets, range); damaged / planted / junk entries became misses or errors, never wrong data or a panic, with two recorded exceptions (files renamed to another well-formed name or moved to another key, see known findings).",
    "C13": "Held at every observed quiescent point: counters, tracked entries and directory contents agreed, and the capacity bound held after every put, including hundreds of steered schedules of simultaneous identical puts.",
    "C20": "Held on the explored histories: every recorded history satisfied the one-task-per-flight / every-caller-gets-that-outcome / new-flight-after-return rules, and no waiter was left pending under the bounded-progress probe. Schedules are sampled (5 runtime shapes, perturbation at hook points), not enumerated.",
    "C17": "Held on the explored plans: every reconstruction (both writers, all cache modes, cold and warm, ~8 byte ranges per plan) wrote exactly the expected slice and reported its length, with request completion order permuted by seeded server delays.",
    "C19": "Crash-point enumeration: for each scenario every file-system effect call of the operation was cut once with SIGKILL and the surviving directory judged by a fresh process; no partial file was found under a final name, no pre-existing record was lost and every re-open succeeded.",
    "C14": "Held on the explored files and sessions: sizes and metrics conserved (new + deduped = total, withheld <= new, session = sum of files, upload byte counts = what the store calls carried), including runs where fragmentation prevention engaged.",
    "C15": "Held on the explored sessions: every xorb handed to the store respected the configured chunk/byte limits and wire-format widths with strictly increasing boundaries; no shard carried an unresolved xorb reference.",
    "C16": "Fault enumeration: every store call of each enumerated session was failed in turn; in every injected run some session call returned an error, and no shard was ever handed over before/without its xorbs. Exhaustive over single faults per session (bounded), sampled over multi-fault sets and schedules.",
    "C04": "Held on the explored (stream, partition, target) cases: the real chunker's output was compared chunk by chunk with an independent implementation of the gear-hash rule, plus bounds, concatenation, hash and locality clauses. Sampling, not proof; adversarial and boundary-biased generators make the sample hostile.",
    "C06": "Held on the explored chunk lists / byte strings: every aggregate, leaf and range hash equalled an independent blake3 construction and committed golden values; 4 mutation kinds changed the aggregate; both validators recomputed the uploader's hash.",
    "C07": "Held on the explored xorbs: every byte, range, boundary and offset returned by the reader equalled the input and an independent parser's view; sync/async/stream chunk decoders agreed; bg4 exhaustive over lengths.",
    "C05": "Held on the explored shard contents / query sequences / manager histories: every answer was checked position by position against the ground truth of everything ever added (hash equality, range inside the xorb, byte sum). Hits, partial hits and collision-resolved hits are counted and gated so the run cannot be vacuous.",
    "C09": "Held on the explored models: lookups, scans, totals and size accounting of the serialized shard equalled the record maps; absent keys (also with shared prefix) returned not-found; three reader families agreed; the search routine was exercised far beyond its 256-entry read window.",
    "C10": "Held on the explored pairs and directories: outputs equalled model set operations and passed the C09 oracle; consolidation lost, invented or damaged no record and returned content-named existing files.",
    "C18": "Held on the explored exports and expiry scenarios: keyed chunk hashes equal an independent hmac, no plain chunk hash bytes remain, dedup answers through the manager equal the original's, records kept/dropped as requested; load / clean predicates judged with a 5 s margin.",
    "C08": "Fault enumeration over serialized xorbs: each mutant is judged by an independent decoder when accepted; panics are caught, allocations counted. Exhaustive over single-byte header/footer replacements and truncation points for a subset of bases, sampled otherwise.",
}

NOT_APPLICABLE = []
for _pid in ["C01", "C02", "C03", "C05", "C09", "C10", "C11", "C12", "C13", "C14", "C15", "C16", "C17", "C18", "C19", "C20"]:
    if _pid not in PROPS:
        NOT_APPLICABLE.append({"property_id": _pid, "reason": "check still under construction in this round (designed in DESIGN.md section 3; not claimed until its monitor runs)"})
