"""Registry: which jobs decide which property, with tier sizes and coverage gates.
tuples are (quick, thorough)."""
from xvlib import Job

PURE = dict(pkg="xv_pure", binname="xv_pure")

PROPS = {}

PROPS["C04"] = dict(
    level="exploration",
    technique="reference-model monitor: real Chunker vs independent gear-hash rule over seeded streams x call partitions",
    rule=("case = (target 2^7..2^20, stream class, length near min/max/boundaries, feed partition); each (stream, partition) pair is one "
          "evaluation judged against ref_chunk_boundaries; non-trivial = >=2 chunks; distinct = (target, class, length bucket, partition kind, "
          "#chunks bucket, forced-max seen, min-edge seen)"),
    assumptions=["gearhash::DEFAULT_TABLE constants are taken as data", "blake3 is correct", "streams < 4 GiB"],
    jobs=[
        Job("chunker", engine="chunker", workers=(8, 16), cases=(400, 40000), time_s=(40, 600), args={"max-target-log": (18, 20)}, **PURE),
    ],
    gates=dict(evaluations=(5000, 100000), distinct=(300, 1000),
               counters={"locality_cases": (100, 2000), "cases_with_forced_max_cut": (20, 500), "cases_with_chunk_at_minimum_edge": (10, 200)}),
)

PROPS["C06"] = dict(
    level="exploration",
    technique="reference-model monitor: aggregate/leaf/range hashes vs independent blake3 construction + golden values + validator agreement",
    rule=("case = chunk list (1..20000 entries; classes random / cut-everywhere / cut-nowhere / repeated / extreme lengths) x salt class; "
          "judged against ref merkle construction, 5 mutation kinds, text-form round trips, streaming vs one-shot, both validators; "
          "non-trivial = list of >=2 entries; distinct = (class, log2 n, salt class, validated)"),
    assumptions=["blake3 is correct and collision resistant", "a chunk hash recurs only with the same length"],
    jobs=[
        Job("hash", engine="hash", workers=(8, 16), cases=(150, 6000), time_s=(40, 700), **PURE),
    ],
    gates=dict(evaluations=(600, 20000), distinct=(40, 80), counters={"golden_checked": (9, 9), "mutations_checked": (2000, 50000), "validator_agreements": (100, 3000)}),
)

PROPS["C07"] = dict(
    level="exploration",
    technique="round-trip monitor with independent xorb parser; three chunk decoders compared; bg4 exhaustive over lengths",
    rule=("case = chunk list (1..300 chunks, lengths 1..128KiB incl. every residue mod 4, 7 data classes) x scheme {auto,none,lz4,bg4lz4}; "
          "all O(n^2) chunk ranges for n<=40 else 62 sampled; every case judged by input bytes and by ref_parse_xorb_v1; "
          "distinct = (scheme, log2 n, class set, fallback seen, residue set); bg4 split/regroup variants for every length 0..4100"),
    assumptions=["lz4_flex frame decoder is shared with the reference parser"],
    jobs=[
        Job("xorb_rt", engine="xorb_rt", workers=(8, 16), cases=(60, 4000), time_s=(40, 700), extra_workers_arg=True,
            args={"max-chunks": (300, 1200), "bg4-max-len": (4100, 20000)}, **PURE),
    ],
    gates=dict(evaluations=(300, 10000), distinct=(100, 400),
               counters={"ranges_checked": (10000, 300000), "bg4_lengths_checked": (4101, 20001), "xorbs_with_incompressible_fallback": (50, 1000)}),
    exhaustive_note="bg4 split/regroup (all variants) for every input length 0..bg4-max-len",
)

PROPS["C08"] = dict(
    level="fault_enumeration",
    technique="mutation/fault enumeration on serialized xorbs; accept-soundness judged by independent decoder; catch_unwind + counting allocator",
    rule=("base = valid xorb (v1 footer / footer-less / v0 footer); faults = every single-byte replacement (4 values) in every chunk header, "
          "footer and info_length byte and truncation at every offset for 1 in 8 small bases (exhaustive), plus 14 random mutation kinds, "
          "v0-footer mutations and random byte strings; each mutant goes through both validators, CasObject::deserialize, "
          "deserialize_only_boundaries_section and deserialize_chunks; evaluation = one mutant; distinct = (mutation kind, scheme, #chunks, size class)"),
    assumptions=["allocation limit 256 MiB per call; inputs declaring > 2^28 boundary entries are not fed to deserialize_only_boundaries_section (harness memory safety valve)"],
    jobs=[
        Job("xorb_val", engine="xorb_val", workers=(8, 16), cases=(40, 3000), time_s=(40, 700), args={"mutants": (150, 300)}, **PURE),
    ],
    gates=dict(evaluations=(50000, 2000000), distinct=(200, 400),
               counters={"valid_forms_checked": (600, 20000), "bases_with_exhaustive_header_footer_flips": (20, 500), "mutants_accepted_v1": (100, 1000)}),
    exhaustive_note="single-byte replacements over all header/footer bytes and all truncation points, for every 8th small base",
)

LEVEL_TEXT = {
    "C04": "Held on the explored (stream, partition, target) cases: the real chunker's output was compared chunk by chunk with an independent implementation of the gear-hash rule, plus bounds, concatenation, hash and locality clauses. Sampling, not proof; adversarial and boundary-biased generators make the sample hostile.",
    "C06": "Held on the explored chunk lists / byte strings: every aggregate, leaf and range hash equalled an independent blake3 construction and committed golden values; 4 mutation kinds changed the aggregate; both validators recomputed the uploader's hash.",
    "C07": "Held on the explored xorbs: every byte, range, boundary and offset returned by the reader equalled the input and an independent parser's view; sync/async/stream chunk decoders agreed; bg4 exhaustive over lengths.",
    "C08": "Fault enumeration over serialized xorbs: each mutant is judged by an independent decoder when accepted; panics are caught, allocations counted. Exhaustive over single-byte header/footer replacements and truncation points for a subset of bases, sampled otherwise.",
}

NOT_APPLICABLE = []
for _pid in ["C01", "C02", "C03", "C05", "C09", "C10", "C11", "C12", "C13", "C14", "C15", "C16", "C17", "C18", "C19", "C20"]:
    if _pid not in PROPS:
        NOT_APPLICABLE.append({"property_id": _pid, "reason": "check still under construction in this round (designed in DESIGN.md section 3; not claimed until its monitor runs)"})
