"""Library behind bin/check: job registry, worker pool, report merging, verdicts, evidence."""
import concurrent.futures as cf
import fcntl
import json
import os
import shutil
import signal
import subprocess
import sys
import tempfile
import time

ROOT = os.path.dirname(os.path.dirname(os.path.abspath(__file__)))
HARNESS = os.path.join(ROOT, "harness")
EVIDENCE = os.path.join(ROOT, "evidence")
REPLAYS = os.path.join(ROOT, "replays")
KNOWN = os.path.join(ROOT, "known_findings.txt")
NCPU = min(16, os.cpu_count() or 4)

BASE_ENV = {
    "CARGO_NET_OFFLINE": "true",
    "RUSTFLAGS": "--cfg xet_verif",
    "RUST_BACKTRACE": "0",
}


def log(*a):
    print(*a, file=sys.stderr, flush=True)


# ------------------------------------------------------------------------------------------------
# build


def target_dir():
    return os.environ.get("XV_TARGET_DIR", os.path.join(HARNESS, "target"))


def bin_path(profile, binname):
    return os.path.join(target_dir(), profile, binname)


_built = set()
MIRI_DIR = os.path.join(ROOT, "harness-miri")


def asan_target_dir():
    return os.environ.get("XV_ASAN_TARGET_DIR", os.path.join(HARNESS, "target-asan"))


def build_job(job):
    if job.kind == "miri":
        build_miri()
    elif job.kind == "asan":
        build_asan(job.profile, job.pkg)
    else:
        build(job.profile, job.pkg)


def _locked_run(key, cmd, cwd, env, what):
    if key in _built:
        return
    os.makedirs(target_dir(), exist_ok=True)
    lockf = open(os.path.join(target_dir(), ".xv-build-lock"), "w")
    fcntl.flock(lockf, fcntl.LOCK_EX)
    try:
        t0 = time.time()
        r = subprocess.run(cmd, cwd=cwd, env=env, stdout=subprocess.PIPE, stderr=subprocess.STDOUT, text=True)
        if r.returncode != 0:
            log(r.stdout[-6000:])
            raise BuildError(f"{what} failed")
        log(f"[build] {what} ok in {time.time() - t0:.1f}s")
    finally:
        fcntl.flock(lockf, fcntl.LOCK_UN)
        lockf.close()
    _built.add(key)


def build_miri():
    env = dict(os.environ)
    env.update({"CARGO_NET_OFFLINE": "true", "MIRIFLAGS": "-Zmiri-disable-isolation"})
    env.pop("RUSTFLAGS", None)
    _locked_run(("miri",), ["cargo", "+nightly", "miri", "run", "--offline", "-q", "--", "noop"], MIRI_DIR, env, "xv_miri [miri]")


def build_asan(profile, pkg):
    env = dict(os.environ)
    env.update({"CARGO_NET_OFFLINE": "true", "RUSTFLAGS": "--cfg xet_verif -Zsanitizer=address -Cforce-frame-pointers=yes", "CARGO_TARGET_DIR": asan_target_dir()})
    _locked_run(("asan", profile, pkg), ["cargo", "+nightly", "build", "--offline", "--profile", profile, "-p", pkg, "--target", "x86_64-unknown-linux-gnu"], HARNESS, env, f"{pkg} [{profile}, asan]")


def build(profile, pkg):
    """cargo build of one harness package in one profile (incremental; no-op when up to date)."""
    key = (profile, pkg)
    if key in _built:
        return
    env = dict(os.environ)
    env.update(BASE_ENV)
    env["CARGO_TARGET_DIR"] = target_dir()
    os.makedirs(target_dir(), exist_ok=True)
    lockf = open(os.path.join(target_dir(), ".xv-build-lock"), "w")
    fcntl.flock(lockf, fcntl.LOCK_EX)
    try:
        t0 = time.time()
        cmd = ["cargo", "build", "--offline", "--profile", profile, "-p", pkg]
        r = subprocess.run(cmd, cwd=HARNESS, env=env, stdout=subprocess.PIPE, stderr=subprocess.STDOUT, text=True)
        if r.returncode != 0:
            log(r.stdout[-6000:])
            raise BuildError(f"cargo build failed for {pkg} [{profile}]")
        log(f"[build] {pkg} [{profile}] ok in {time.time() - t0:.1f}s")
    finally:
        fcntl.flock(lockf, fcntl.LOCK_UN)
        lockf.close()
    _built.add(key)


class BuildError(Exception):
    pass


# ------------------------------------------------------------------------------------------------
# jobs


class Job:
    def __init__(self, name, pkg, binname, engine, profile="prodlike", args=None, env=None, workers=(4, 16), cases=(100, 1000),
                 time_s=(60, 900), crash_is_violation=True, props=None, extra_workers_arg=False, kind="native", tiers=("quick", "thorough")):
        self.name = name
        self.pkg = pkg
        self.binname = binname
        self.engine = engine
        self.profile = profile
        self.args = args or {}
        self.env = env or {}
        self.workers = workers
        self.cases = cases
        self.time_s = time_s
        self.crash_is_violation = crash_is_violation
        self.extra_workers_arg = extra_workers_arg
        self.kind = kind
        self.tiers = tiers
        if kind in ("miri", "asan"):
            self.env = dict(self.env)
            if kind == "miri":
                self.env.setdefault("MIRIFLAGS", "-Zmiri-disable-isolation")
            else:
                self.env.setdefault("ASAN_OPTIONS", "halt_on_error=1:abort_on_error=1:detect_leaks=0:allocator_may_return_null=1")

    def tier_idx(self, tier):
        return 0 if tier == "quick" else 1

    def argv(self, tier, seed, worker, only=None):
        t = self.tier_idx(tier)
        if self.kind == "miri":
            a = ["cargo", "+nightly", "miri", "run", "--offline", "-q", "--manifest-path", os.path.join(MIRI_DIR, "Cargo.toml"), "--"]
        elif self.kind == "asan":
            a = [os.path.join(asan_target_dir(), "x86_64-unknown-linux-gnu", self.profile, self.binname)]
        else:
            a = [bin_path(self.profile, self.binname)]
        a += [self.engine, "--seed", str(seed), "--worker", str(worker)]
        if self.extra_workers_arg:
            a += ["--workers", str(self.workers[t])]
        if only is not None:
            a += ["--only", str(only)]
        else:
            a += ["--cases", str(self.cases[t]), "--time-ms", str(int(self.time_s[t] * 1000))]
        for k, v in self.args.items():
            if isinstance(v, (tuple, list)):
                v = v[t]
            if v is None:
                continue
            if v is True:
                a += ["--" + k]
            else:
                a += ["--" + k, str(v)]
        return a

    def describe(self):
        return {"job": self.name, "engine": self.engine, "profile": self.profile, "env": self.env, "kind": self.kind}


def run_worker(job, tier, seed, worker, only=None, scratch_root=None):
    """Run one worker process; returns dict(report=..., status=..., crash_case=...)."""
    t = job.tier_idx(tier)
    env = dict(os.environ)
    env.update(BASE_ENV)
    env.update({k: str(v) for k, v in job.env.items()})
    if job.kind == "miri":
        env.pop("RUSTFLAGS", None)
    scratch = tempfile.mkdtemp(prefix=f"xv-{job.name}-{worker}-", dir=scratch_root)
    env["TMPDIR"] = scratch
    env["XV_SCRATCH"] = scratch
    prog = os.path.join(scratch, "progress")
    env["XV_PROGRESS"] = prog
    argv = job.argv(tier, seed, worker, only)
    hard_timeout = job.time_s[t] * 3 + 120
    t0 = time.time()
    try:
        p = subprocess.Popen(argv, env=env, stdout=subprocess.PIPE, stderr=subprocess.PIPE, text=True, start_new_session=True)
        try:
            out, err = p.communicate(timeout=hard_timeout)
            status = p.returncode
        except subprocess.TimeoutExpired:
            try:
                os.killpg(p.pid, signal.SIGKILL)
            except ProcessLookupError:
                pass
            out, err = p.communicate()
            status = "timeout"
    except OSError as e:
        shutil.rmtree(scratch, ignore_errors=True)
        return {"report": None, "status": f"spawn-error {e}", "crash_case": None, "stderr": "", "wall": 0, "argv": argv}
    report = None
    for line in out.splitlines():
        if line.startswith("XVREPORT "):
            try:
                report = json.loads(line[9:])
            except json.JSONDecodeError:
                report = None
    crash_case = None
    if report is None:
        try:
            with open(prog) as f:
                crash_case = int(f.read().strip() or "-1")
        except (OSError, ValueError):
            crash_case = None
    shutil.rmtree(scratch, ignore_errors=True)
    return {"report": report, "status": status, "crash_case": crash_case, "stderr": err[-3000:], "wall": time.time() - t0, "argv": argv}


# ------------------------------------------------------------------------------------------------
# known findings


def load_known():
    """known_findings.txt lines:  known: property=C02 signature=<sig> <what>   /   fixed: property=C08 <commit> signature=<sig> <what>"""
    known = {}
    if not os.path.exists(KNOWN):
        return known
    for line in open(KNOWN):
        line = line.strip()
        if not line or line.startswith("#"):
            continue
        if line.startswith("known:"):
            toks = line.split()
            prop = sig = None
            for t in toks:
                if t.startswith("property="):
                    prop = t[9:]
                if t.startswith("signature="):
                    sig = t[10:]
            if prop and sig:
                known[(prop, sig)] = line[len("known:"):].strip()
    return known


# ------------------------------------------------------------------------------------------------
# merge + verdict


def merge_reports(pid, results):
    m = {"evaluations": 0, "nontrivial": 0, "sigs": set(), "counters": {}, "samples": [], "violations": [], "violation_count": 0,
         "inconclusive": 0, "inconclusive_notes": []}
    for r in results:
        rep = r.get("report")
        if not rep or pid not in rep:
            continue
        p = rep[pid]
        m["evaluations"] += p["evaluations"]
        m["nontrivial"] += p["nontrivial"]
        m["sigs"].update(p["sigs"])
        for k, v in p["counters"].items():
            if k.startswith("max_"):
                m["counters"][k] = max(m["counters"].get(k, 0), v)
            else:
                m["counters"][k] = m["counters"].get(k, 0) + v
        for s in p["samples"]:
            if len(m["samples"]) < 6:
                s = dict(s) if isinstance(s, dict) else {"case": s}
                s["_job"] = r["job"].name
                m["samples"].append(s)
        for v in p["violations"]:
            v = dict(v)
            v["_job"] = r["job"].describe()
            v["_argv"] = r["argv"]
            m["violations"].append(v)
        m["violation_count"] += p["violation_count"]
        m["inconclusive"] += p["inconclusive"]
        m["inconclusive_notes"] += p["inconclusive_notes"]
    return m


class RepoLock:
    """Shared lock on /repo's sources while a check builds; bin/seedtest holds it exclusively while a
    seeded change is applied, so a check running in the background never compiles a half-applied tree."""

    def __enter__(self):
        self.f = None
        if os.environ.get("XV_NO_REPO_LOCK"):
            return self
        try:
            self.f = open("/tmp/xv-repo.lock", "a")
            fcntl.flock(self.f, fcntl.LOCK_SH)
        except OSError:
            self.f = None
        return self

    def __exit__(self, *a):
        if self.f:
            fcntl.flock(self.f, fcntl.LOCK_UN)
            self.f.close()


def run_check(pid, tier, seed):
    from xvconf import PROPS
    if pid not in PROPS:
        print(f"unknown property {pid}")
        return 2
    conf = PROPS[pid]
    t0 = time.time()
    os.makedirs(EVIDENCE, exist_ok=True)
    os.makedirs(REPLAYS, exist_ok=True)
    jobs = [j for j in conf["jobs"] if tier in j.tiers]
    if conf.get("custom"):
        import crashdrive
        try:
            with RepoLock():
                for (profile, pkg) in sorted({(j.profile, j.pkg) for j in jobs}):
                    build(profile, pkg)
        except BuildError as e:
            print(f"INCONCLUSIVE property={pid} reason=build-failed {e}")
            return 3
        m, inconclusive_workers, n_tasks = crashdrive.run(pid, tier, seed, conf)
        return finish(pid, tier, seed, conf, m, inconclusive_workers, n_tasks, t0)
    try:
        with RepoLock():
            for j in jobs:
                build_job(j)
            if conf.get("extra_crash"):
                build("prodlike", "xv_full")  # the strace-injection driver runs this binary
    except BuildError as e:
        print(f"INCONCLUSIVE property={pid} reason=build-failed {e}")
        return 3
    scratch_root = os.environ.get("XV_SCRATCH_ROOT") or tempfile.gettempdir()
    tasks = []
    for j in jobs:
        for w in range(j.workers[j.tier_idx(tier)]):
            tasks.append((j, w))
    results = []
    harness_failures = []
    with cf.ThreadPoolExecutor(max_workers=int(os.environ.get("XV_JOBS", NCPU))) as ex:
        futs = {ex.submit(run_worker, j, tier, seed, w, None, scratch_root): (j, w) for (j, w) in tasks}
        for f in cf.as_completed(futs):
            j, w = futs[f]
            r = f.result()
            r["job"] = j
            r["worker"] = w
            results.append(r)
    # crashed / timed-out workers: try to attribute to one case and confirm by re-running it
    crash_violations = []
    inconclusive_workers = []
    for r in results:
        if r["report"] is not None and r["status"] == 0:
            continue
        j, w = r["job"], r["worker"]
        if r["status"] == "timeout":
            inconclusive_workers.append(f"{j.name}/w{w}: watchdog timeout")
            continue
        k = r["crash_case"]
        if k is None or k < 0:
            inconclusive_workers.append(f"{j.name}/w{w}: exit {r['status']} before any case; stderr={r['stderr'][-300:]!r}")
            continue
        r2 = run_worker(j, tier, seed, w, only=k, scratch_root=scratch_root)
        if r2["report"] is None and r2["status"] != "timeout":
            if j.crash_is_violation:
                crash_violations.append({"kf_sig": f"crash-{j.engine}", "what": f"worker process died (status {r2['status']}) in case {k}, reproducibly",
                                         "witness": {"engine": j.engine, "seed": seed, "worker": w, "only": k, "stderr": r2["stderr"][-1500:]},
                                         "_job": j.describe(), "_argv": r2["argv"]})
            else:
                inconclusive_workers.append(f"{j.name}/w{w}: reproducible death in case {k}")
        else:
            inconclusive_workers.append(f"{j.name}/w{w}: exit {r['status']} in case {k}, not reproducible")
            if r2["report"] is not None:
                r2["job"] = j
                r2["worker"] = w
                results.append(r2)

    m = merge_reports(pid, results)
    m["violations"] += crash_violations
    m["violation_count"] += len(crash_violations)
    n_tasks = len(tasks)
    if conf.get("extra_crash"):
        # an additional stage run by the strace-injection driver (e.g. I/O errors underneath the local store client)
        import crashdrive
        m2, inc2, n2 = crashdrive.run(pid, tier, seed, conf["extra_crash"])
        m["evaluations"] += m2["evaluations"]
        m["nontrivial"] += m2["nontrivial"]
        m["sigs"].update(m2["sigs"])
        for k, v in m2["counters"].items():
            m["counters"][k] = m["counters"].get(k, 0) + v
        m["samples"] += m2["samples"][:2]
        m["violations"] += m2["violations"]
        m["violation_count"] += m2["violation_count"]
        inconclusive_workers += inc2
        n_tasks += n2
    return finish(pid, tier, seed, conf, m, inconclusive_workers, n_tasks, t0)


def finish(pid, tier, seed, conf, m, inconclusive_workers, n_workers_total, t0):
    jobs = [j for j in conf["jobs"] if tier in j.tiers]
    known = load_known()
    new_violations = []
    known_hits = {}
    for v in m["violations"]:
        key = (pid, v["kf_sig"])
        if key in known:
            known_hits.setdefault(v["kf_sig"], v)
        else:
            new_violations.append(v)

    # coverage gates
    gates = conf.get("gates", {})
    t = 0 if tier == "quick" else 1
    gate_failures = []
    distinct = len(m["sigs"])
    if m["evaluations"] < gates.get("evaluations", (1, 1))[t]:
        gate_failures.append(f"evaluations {m['evaluations']} < {gates.get('evaluations')[t]}")
    if distinct < gates.get("distinct", (2, 2))[t]:
        gate_failures.append(f"distinct_nontrivial {distinct} < {gates.get('distinct', (2, 2))[t]}")
    for cname, mins in gates.get("counters", {}).items():
        if m["counters"].get(cname, 0) < mins[t]:
            gate_failures.append(f"counter {cname}={m['counters'].get(cname, 0)} < {mins[t]}")
    if len(inconclusive_workers) * 4 > max(1, n_workers_total):
        gate_failures.append(f"{len(inconclusive_workers)} of {n_workers_total} workers inconclusive")

    wall = time.time() - t0
    ev = {
        "property_id": pid,
        "tier": tier,
        "seed": seed,
        "level": conf["level"],
        "coverage": {
            "evaluations": m["evaluations"],
            "distinct_nontrivial": distinct,
            "nontrivial_evaluations": m["nontrivial"],
            "rule": conf["rule"],
            "samples": m["samples"] if m["samples"] else [{"note": "no sample recorded"}],
            "counters": m["counters"],
            "jobs": [dict(j.describe(), workers=j.workers[t], cases_per_worker=j.cases[t]) for j in jobs],
            "inconclusive_cases": m["inconclusive"],
            "inconclusive_notes": m["inconclusive_notes"][:10],
            "inconclusive_workers": inconclusive_workers[:10],
            "known_findings_seen": sorted(known_hits.keys()),
            "new_violation_signatures": sorted({v["kf_sig"] for v in new_violations}),
            "gate_failures": gate_failures,
        },
        "assumptions": conf.get("assumptions", []),
        "wall_s": round(wall, 2),
        "violations": len(new_violations) + len(known_hits),
    }
    if conf.get("exhaustive_note"):
        ev["coverage"]["exhaustive_parts"] = conf["exhaustive_note"]
    with open(os.path.join(EVIDENCE, f"{pid}.json"), "w") as f:
        json.dump(ev, f, indent=1, sort_keys=True)

    log(f"[{pid}] tier={tier} seed={seed} evaluations={m['evaluations']} distinct_nontrivial={distinct} counters={json.dumps(m['counters'])} wall={wall:.1f}s")
    for sig, v in sorted(known_hits.items()):
        print(f"KNOWN-FINDING: {known[(pid, sig)]}")
    if new_violations:
        seen = set()
        n = 0
        for v in new_violations:
            if v["kf_sig"] in seen:
                continue
            seen.add(v["kf_sig"])
            path = os.path.join(REPLAYS, f"{pid}-{tier}-{seed}-{n}.json")
            n += 1
            with open(path, "w") as f:
                json.dump({"property": pid, "tier": tier, "violation": v}, f, indent=1, default=str)
            print(f"VIOLATION property={pid} replay={path}")
            log(f"  what: [{v['kf_sig']}] {v['what']}")
        return 1
    if gate_failures:
        print(f"INCONCLUSIVE property={pid} " + "; ".join(gate_failures))
        for n in inconclusive_workers[:5]:
            log("  " + n)
        return 3
    print(f"OK property={pid} tier={tier} seed={seed} evaluations={m['evaluations']} distinct_nontrivial={distinct}")
    return 0


def replay(pid, path):
    from xvconf import PROPS
    d = json.load(open(path))
    v = d["violation"]
    jd = v["_job"]
    conf = PROPS[pid]
    if conf.get("custom") or v.get("witness", {}).get("engine") == "crash":
        import crashdrive
        for j in conf["jobs"]:
            build(j.profile, j.pkg)
        if crashdrive.replay(pid, v):
            print(f"VIOLATION property={pid} replay={path}")
            return 1
        print("replay: the recorded violation did not reproduce")
        return 0
    job = None
    for j in conf["jobs"]:
        if j.name == jd["job"]:
            job = j
    if job is None:
        print("job of the replay file no longer exists:", jd["job"])
        return 2
    build_job(job)
    w = v["witness"]
    r = run_worker(job, d.get("tier", "quick"), w.get("seed", 1), w.get("worker", 0), only=w.get("only", 0))
    rep = r["report"]
    if rep is None:
        print(f"replay: worker died with status {r['status']}: {r['stderr'][-800:]}")
        print(f"VIOLATION property={pid} replay={path}")
        return 1
    p = rep.get(pid, {})
    sigs = {x["kf_sig"] for x in p.get("violations", [])}
    print(f"replay: violations seen: {sorted(sigs)}")
    for x in p.get("violations", [])[:5]:
        print("  ", json.dumps(x)[:1500])
    if v["kf_sig"] in sigs:
        print(f"VIOLATION property={pid} replay={path}")
        return 1
    print("replay: the recorded violation did not reproduce")
    return 0
